
-- ILI : Interlingual Index

CREATE TABLE ilis (
    rowid INTEGER PRIMARY KEY,
    id TEXT NOT NULL,
    status_rowid INTEGER NOT NULL REFERENCES ili_statuses (rowid),
    definition TEXT,
    metadata META,
    UNIQUE (id)
);
CREATE INDEX ili_id_index ON ilis (id);

CREATE TABLE proposed_ilis (
    rowid INTEGER PRIMARY KEY,
    synset_rowid INTEGER REFERENCES synsets (rowid) ON DELETE CASCADE,
    definition TEXT,
    metadata META,
    UNIQUE (synset_rowid)
);
CREATE INDEX proposed_ili_synset_rowid_index ON proposed_ilis (synset_rowid);


-- Wordnet lexicons

CREATE TABLE lexicons (
    rowid INTEGER PRIMARY KEY,  -- unique database-internal id
    id TEXT NOT NULL,           -- user-facing id
    label TEXT NOT NULL,
    language TEXT NOT NULL,     -- bcp-47 language tag
    email TEXT NOT NULL,
    license TEXT NOT NULL,
    version TEXT NOT NULL,
    url TEXT,
    citation TEXT,
    logo TEXT,
    metadata META,
    modified BOOLEAN CHECK( modified IN (0, 1) ) DEFAULT 0 NOT NULL,
    UNIQUE (id, version)
);

CREATE TABLE lexicon_dependencies (
    dependent_rowid INTEGER NOT NULL REFERENCES lexicons (rowid) ON DELETE CASCADE,
    provider_id TEXT NOT NULL,
    provider_version TEXT NOT NULL,
    provider_url TEXT,
    provider_rowid INTEGER REFERENCES lexicons (rowid) ON DELETE SET NULL
);
CREATE INDEX lexicon_dependent_index ON lexicon_dependencies(dependent_rowid);

CREATE TABLE lexicon_extensions (
    extension_rowid INTEGER NOT NULL REFERENCES lexicons (rowid) ON DELETE CASCADE,
    base_id TEXT NOT NULL,
    base_version TEXT NOT NULL,
    base_url TEXT,
    base_rowid INTEGER REFERENCES lexicons (rowid),
    UNIQUE (extension_rowid, base_rowid)
);
CREATE INDEX lexicon_extension_index ON lexicon_extensions(extension_rowid);


-- Lexical Entries

/* The 'lemma' entity of a lexical entry is just a form, but it should
   be the only form with rank = 0. After that, rank can be used to
   indicate preference for a form. */


CREATE TABLE entries (
    rowid INTEGER PRIMARY KEY,
    id TEXT NOT NULL,
    lexicon_rowid INTEGER NOT NULL REFERENCES lexicons (rowid) ON DELETE CASCADE,
    pos TEXT NOT NULL,
    metadata META,
    UNIQUE (id, lexicon_rowid)
);
CREATE INDEX entry_id_index ON entries (id);

CREATE TABLE forms (
    rowid INTEGER PRIMARY KEY,
    id TEXT,
    lexicon_rowid INTEGER NOT NULL REFERENCES lexicons(rowid) ON DELETE CASCADE,
    entry_rowid INTEGER NOT NULL REFERENCES entries(rowid) ON DELETE CASCADE,
    form TEXT NOT NULL,
    normalized_form TEXT,
    script TEXT,
    rank INTEGER DEFAULT 1,  -- rank 0 is the preferred lemma
    UNIQUE (entry_rowid, form, script)
);
CREATE INDEX form_entry_index ON forms (entry_rowid);
CREATE INDEX form_index ON forms (form);
CREATE INDEX form_norm_index ON forms (normalized_form);

CREATE TABLE pronunciations (
    form_rowid INTEGER NOT NULL REFERENCES forms (rowid) ON DELETE CASCADE,
    value TEXT,
    variety TEXT,
    notation TEXT,
    phonemic BOOLEAN CHECK( phonemic IN (0, 1) ) DEFAULT 1 NOT NULL,
    audio TEXT
);
CREATE INDEX pronunciation_form_index ON pronunciations (form_rowid);

CREATE TABLE tags (
    form_rowid INTEGER NOT NULL REFERENCES forms (rowid) ON DELETE CASCADE,
    tag TEXT,
    category TEXT
);
CREATE INDEX tag_form_index ON tags (form_rowid);


-- Synsets

CREATE TABLE synsets (
    rowid INTEGER PRIMARY KEY,
    id TEXT NOT NULL,
    lexicon_rowid INTEGER NOT NULL REFERENCES lexicons (rowid) ON DELETE CASCADE,
    ili_rowid INTEGER REFERENCES ilis (rowid),
    pos TEXT,
    lexicalized BOOLEAN CHECK( lexicalized IN (0, 1) ) DEFAULT 1 NOT NULL,
    lexfile_rowid INTEGER REFERENCES lexfiles (rowid),
    metadata META
);
CREATE INDEX synset_id_index ON synsets (id);
CREATE INDEX synset_ili_rowid_index ON synsets (ili_rowid);

CREATE TABLE synset_relations (
    rowid INTEGER PRIMARY KEY,
    lexicon_rowid INTEGER NOT NULL REFERENCES lexicons (rowid) ON DELETE CASCADE,
    source_rowid INTEGER NOT NULL REFERENCES synsets(rowid) ON DELETE CASCADE,
    target_rowid INTEGER NOT NULL REFERENCES synsets(rowid) ON DELETE CASCADE,
    type_rowid INTEGER NOT NULL REFERENCES relation_types(rowid),
    metadata META
);
CREATE INDEX synset_relation_source_index ON synset_relations (source_rowid);
CREATE INDEX synset_relation_target_index ON synset_relations (target_rowid);

CREATE TABLE definitions (
    rowid INTEGER PRIMARY KEY,
    lexicon_rowid INTEGER NOT NULL REFERENCES lexicons(rowid) ON DELETE CASCADE,
    synset_rowid INTEGER NOT NULL REFERENCES synsets(rowid) ON DELETE CASCADE,
    definition TEXT,
    language TEXT,  -- bcp-47 language tag
    sense_rowid INTEGER REFERENCES senses(rowid) ON DELETE SET NULL,
    metadata META
);
CREATE INDEX definition_rowid_index ON definitions (synset_rowid);
CREATE INDEX definition_sense_index ON definitions (sense_rowid);

CREATE TABLE synset_examples (
    rowid INTEGER PRIMARY KEY,
    lexicon_rowid INTEGER NOT NULL REFERENCES lexicons(rowid) ON DELETE CASCADE,
    synset_rowid INTEGER NOT NULL REFERENCES synsets(rowid) ON DELETE CASCADE,
    example TEXT,
    language TEXT,  -- bcp-47 language tag
    metadata META
);
CREATE INDEX synset_example_rowid_index ON synset_examples(synset_rowid);


-- Senses

CREATE TABLE senses (
    rowid INTEGER PRIMARY KEY,
    id TEXT NOT NULL,
    lexicon_rowid INTEGER NOT NULL REFERENCES lexicons(rowid) ON DELETE CASCADE,
    entry_rowid INTEGER NOT NULL REFERENCES entries(rowid) ON DELETE CASCADE,
    entry_rank INTEGER DEFAULT 1,
    synset_rowid INTEGER NOT NULL REFERENCES synsets(rowid) ON DELETE CASCADE,
    synset_rank INTEGER DEFAULT 1,
    lexicalized BOOLEAN CHECK( lexicalized IN (0, 1) ) DEFAULT 1 NOT NULL,
    metadata META
);
CREATE INDEX sense_id_index ON senses(id);
CREATE INDEX sense_entry_rowid_index ON senses (entry_rowid);
CREATE INDEX sense_synset_rowid_index ON senses (synset_rowid);

CREATE TABLE sense_relations (
    rowid INTEGER PRIMARY KEY,
    lexicon_rowid INTEGER NOT NULL REFERENCES lexicons (rowid) ON DELETE CASCADE,
    source_rowid INTEGER NOT NULL REFERENCES senses(rowid) ON DELETE CASCADE,
    target_rowid INTEGER NOT NULL REFERENCES senses(rowid) ON DELETE CASCADE,
    type_rowid INTEGER NOT NULL REFERENCES relation_types(rowid),
    metadata META
);
CREATE INDEX sense_relation_source_index ON sense_relations (source_rowid);
CREATE INDEX sense_relation_target_index ON sense_relations (target_rowid);

CREATE TABLE sense_synset_relations (
    rowid INTEGER PRIMARY KEY,
    lexicon_rowid INTEGER NOT NULL REFERENCES lexicons (rowid) ON DELETE CASCADE,
    source_rowid INTEGER NOT NULL REFERENCES senses(rowid) ON DELETE CASCADE,
    target_rowid INTEGER NOT NULL REFERENCES synsets(rowid) ON DELETE CASCADE,
    type_rowid INTEGER NOT NULL REFERENCES relation_types(rowid),
    metadata META
);
CREATE INDEX sense_synset_relation_source_index ON sense_synset_relations (source_rowid);
CREATE INDEX sense_synset_relation_target_index ON sense_synset_relations (target_rowid);

CREATE TABLE adjpositions (
    sense_rowid INTEGER NOT NULL REFERENCES senses(rowid) ON DELETE CASCADE,
    adjposition TEXT NOT NULL
);
CREATE INDEX adjposition_sense_index ON adjpositions (sense_rowid);

CREATE TABLE sense_examples (
    rowid INTEGER PRIMARY KEY,
    lexicon_rowid INTEGER NOT NULL REFERENCES lexicons(rowid) ON DELETE CASCADE,
    sense_rowid INTEGER NOT NULL REFERENCES senses(rowid) ON DELETE CASCADE,
    example TEXT,
    language TEXT,  -- bcp-47 language tag
    metadata META
);
CREATE INDEX sense_example_index ON sense_examples (sense_rowid);

CREATE TABLE counts (
    rowid INTEGER PRIMARY KEY,
    lexicon_rowid INTEGER NOT NULL REFERENCES lexicons(rowid) ON DELETE CASCADE,
    sense_rowid INTEGER NOT NULL REFERENCES senses(rowid) ON DELETE CASCADE,
    count INTEGER NOT NULL,
    metadata META
);
CREATE INDEX count_index ON counts(sense_rowid);


-- Syntactic Behaviours

CREATE TABLE syntactic_behaviours (
    rowid INTEGER PRIMARY KEY,
    id TEXT,
    lexicon_rowid INTEGER NOT NULL REFERENCES lexicons (rowid) ON DELETE CASCADE,
    frame TEXT NOT NULL,
    UNIQUE (lexicon_rowid, id),
    UNIQUE (lexicon_rowid, frame)
);
CREATE INDEX syntactic_behaviour_id_index ON syntactic_behaviours (id);

CREATE TABLE syntactic_behaviour_senses (
    syntactic_behaviour_rowid INTEGER NOT NULL REFERENCES syntactic_behaviours (rowid) ON DELETE CASCADE,
    sense_rowid INTEGER NOT NULL REFERENCES senses (rowid) ON DELETE CASCADE
);
CREATE INDEX syntactic_behaviour_sense_sb_index
    ON syntactic_behaviour_senses (syntactic_behaviour_rowid);
CREATE INDEX syntactic_behaviour_sense_sense_index
    ON syntactic_behaviour_senses (sense_rowid);


-- Lookup Tables

CREATE TABLE relation_types (
    rowid INTEGER PRIMARY KEY,
    type TEXT NOT NULL,
    UNIQUE (type)
);
CREATE INDEX relation_type_index ON relation_types (type);

CREATE TABLE ili_statuses (
    rowid INTEGER PRIMARY KEY,
    status TEXT NOT NULL,
    UNIQUE (status)
);
CREATE INDEX ili_status_index ON ili_statuses (status);

CREATE TABLE lexfiles (
    rowid INTEGER PRIMARY KEY,
    name TEXT NOT NULL,
    UNIQUE (name)
);
CREATE INDEX lexfile_index ON lexfiles (name);
