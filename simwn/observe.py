"""Observation of the system under test.

* ``image(w)``: canonical, rowid-free picture of what the *public API* of a ``wn.Wordnet``
  reports (the observed counterpart of ``Model.image``).
* ``raw_dump(path)``: every row of every table, through an independent plain sqlite3
  connection wn does not know about (durable state only).
* ``logical_dump(path)``: rowid-free, per-lexicon dump (foreign keys resolved to
  (lexicon specifier, id)), comparable across databases.
"""
from __future__ import annotations

import hashlib
import json
import sqlite3 as _sqlite3

_real_connect = _sqlite3.connect       # captured before any seam is installed


def K(spec, id_):
    return '%s|%s' % (spec, id_)


def ekey(entity):
    return K(entity.lexicon().specifier(), entity.id)


def _meta(m):
    """Copy of a returned metadata mapping; the returned object itself is then scribbled on
    (callers own what the API hands them: nothing they do to it may reach later results)."""
    out = dict(m) if m else {}
    if isinstance(out.get('confidenceScore'), float):
        out['confidenceScore'] = repr(out['confidenceScore'])    # the same value as text
    if isinstance(m, dict):
        m.clear()
        m['scribbled-by-caller'] = True
    return out


def form_obs(f):
    return {'form': str(f), 'id': f.id, 'script': f.script,
            'tags': [[t.tag, t.category] for t in f.tags()],
            'prons': [[p.value, p.variety, p.notation, p.phonemic, p.audio]
                      for p in f.pronunciations()]}


def _try(fn):
    import wn
    try:
        return fn()
    except wn.Error as e:
        return {'error': 'wn.Error'}


def rel_obs(relation, target):
    return {'name': relation.name, 'source': relation.source_id, 'target': ekey(target),
            'lexicon': relation.lexicon().specifier(), 'meta': _meta(relation.metadata())}


def ili_obs(ili):
    if ili is None:
        return None
    if ili.id is None:
        return {'id': None, 'status': ili.status, 'definition': ili.definition(),
                'meta': _meta(ili.metadata())}
    return {'id': ili.id}


def lexicon_obs(lx):
    return {
        'id': lx.id, 'version': lx.version, 'label': lx.label, 'language': lx.language,
        'email': lx.email, 'license': lx.license, 'url': lx.url, 'citation': lx.citation,
        'logo': lx.logo, 'meta': _meta(lx.metadata()),
        'requires': {k: (v is not None and v.specifier() == k)
                     for k, v in lx.requires().items()},
        'extends': (lx.extends().specifier() if lx.extends() is not None else None),
        'extensions': [x.specifier() for x in lx.extensions()],
        'extensions_all': [x.specifier() for x in lx.extensions(depth=-1)],
        'modified': lx.modified(),
    }


def word_obs(w):
    return {'pos': w.pos, 'lemma': str(w.lemma()),
            'forms': [form_obs(f) for f in w.forms()],
            'senses': [ekey(s) for s in w.senses()],
            'meta': _meta(w.metadata())}


def sense_obs(s, relations=True, nav=True):
    o = {
        'examples': list(s.examples()),
        'counts': [[int(c), _meta(c.metadata())] for c in s.counts()],
        'frames': list(s.frames()),
        'adjposition': s.adjposition(),
        'lexicalized': s.lexicalized(),
        'meta': _meta(s.metadata()),
    }
    if nav:
        o['word'] = _try(lambda: ekey(s.word()))
        o['synset'] = _try(lambda: ekey(s.synset()))
    if relations:
        o['relations'] = {
            'senses': [rel_obs(r, t) for r, t in s._iter_sense_relations()],
            'synsets': [rel_obs(r, t) for r, t in s._iter_sense_synset_relations('*')],
        }
    return o


def synset_obs(ss, relations=True):
    o = {
        'pos': ss.pos, 'ili': ili_obs(ss.ili),
        'definition': ss.definition(), 'examples': list(ss.examples()),
        'lexfile': ss.lexfile(), 'lexicalized': ss.lexicalized(),
        'members': [ekey(s) for s in ss.senses()],
        'meta': _meta(ss.metadata()),
    }
    if relations:
        o['relations'] = {'synsets': [rel_obs(r, t) for r, t in ss._iter_local_relations(())]}
    return o


def image(w, relations=True, nav=True):
    img = {'lexicons': {}, 'words': {}, 'senses': {}, 'synsets': {}}
    for lx in w.lexicons():
        img['lexicons'][lx.specifier()] = lexicon_obs(lx)
    for x in w.words():
        img['words'][ekey(x)] = word_obs(x)
    for x in w.senses():
        img['senses'][ekey(x)] = sense_obs(x, relations, nav)
    for x in w.synsets():
        img['synsets'][ekey(x)] = synset_obs(x, relations)
    return img


# -- raw + logical dumps -------------------------------------------------------------------

TABLES = ['ilis', 'proposed_ilis', 'lexicons', 'lexicon_dependencies', 'lexicon_extensions',
          'entries', 'forms', 'pronunciations', 'tags', 'synsets', 'synset_relations',
          'definitions', 'synset_examples', 'senses', 'sense_relations',
          'sense_synset_relations', 'adjpositions', 'sense_examples', 'counts',
          'syntactic_behaviours', 'syntactic_behaviour_senses', 'relation_types',
          'ili_statuses', 'lexfiles']


def observer(path):
    """Independent read-only-by-convention connection (no wn seams, no converters)."""
    return _real_connect(str(path), timeout=0)


def _cell(v):
    if isinstance(v, bytes):
        t = v.decode('utf-8', 'replace')
        if '"confidenceScore": ' in t and t.startswith('{'):
            # a score given as a float and the same score given as text are one value
            try:
                d = json.loads(t)
                if isinstance(d.get('confidenceScore'), float):
                    d['confidenceScore'] = repr(d['confidenceScore'])
                    t = json.dumps(d)
            except ValueError:
                pass
        return 'b:' + t
    return v


def raw_dump(path) -> dict:
    import os
    if not os.path.exists(path) or os.path.getsize(path) == 0:
        return {}
    conn = observer(path)
    try:
        out = {}
        for t in TABLES:
            cols = [r[1] for r in conn.execute('PRAGMA table_info(%s)' % t)]
            has_rowid = cols and cols[0] == 'rowid'
            sel = '*' if has_rowid else 'rowid, *'
            rows = [[_cell(v) for v in r] for r in conn.execute('SELECT %s FROM %s' % (sel, t))]
            rows.sort(key=lambda r: json.dumps(r, sort_keys=True, ensure_ascii=False))
            out[t] = rows
        return out
    finally:
        conn.close()


def digest(obj) -> str:
    return hashlib.sha256(
        json.dumps(obj, sort_keys=True, ensure_ascii=False).encode('utf-8')).hexdigest()[:16]


def integrity(path) -> dict:
    conn = observer(path)
    try:
        conn.execute('PRAGMA foreign_keys = ON')
        fk = conn.execute('PRAGMA foreign_key_check').fetchall()
        ic = conn.execute('PRAGMA integrity_check').fetchall()
        return {'foreign_key_check': [list(map(str, r)) for r in fk],
                'integrity_check': [r[0] for r in ic]}
    finally:
        conn.close()


def logical_dump(path) -> dict:
    """{'lexicons': {spec: {...rows owned by that lexicon...}}, 'shared': {...}}"""
    import os
    if not os.path.exists(path) or os.path.getsize(path) == 0:
        return {'lexicons': {}, 'shared': {'ilis': [], 'relation_types': [], 'lexfiles': [],
                                           'ili_statuses': []}, 'order': []}
    conn = observer(path)
    try:
        c = conn.execute
        lex = {r[0]: '%s:%s' % (r[1], r[2]) for r in c('SELECT rowid,id,version FROM lexicons')}
        ent = {r[0]: K(lex.get(r[2]), r[1])
               for r in c('SELECT rowid,id,lexicon_rowid FROM entries')}
        sen = {r[0]: K(lex.get(r[2]), r[1])
               for r in c('SELECT rowid,id,lexicon_rowid FROM senses')}
        syn = {r[0]: K(lex.get(r[2]), r[1])
               for r in c('SELECT rowid,id,lexicon_rowid FROM synsets')}
        ili = {r[0]: r[1] for r in c('SELECT rowid,id FROM ilis')}
        rt = {r[0]: r[1] for r in c('SELECT rowid,type FROM relation_types')}
        lf = {r[0]: r[1] for r in c('SELECT rowid,name FROM lexfiles')}
        ist = {r[0]: r[1] for r in c('SELECT rowid,status FROM ili_statuses')}
        frm = {}
        for r in c('SELECT rowid,entry_rowid,rank,form,script,id FROM forms'):
            frm[r[0]] = [ent.get(r[1]), r[2], r[3], r[4], r[5]]
        sb = {r[0]: [lex.get(r[2]), r[1], r[3]]
              for r in c('SELECT rowid,id,lexicon_rowid,frame FROM syntactic_behaviours')}
        out = {sp: {} for sp in lex.values()}

        def put(owner, table, row):
            out.setdefault(owner, {}).setdefault(table, []).append([_cell(v) for v in row])

        for r in c('SELECT rowid,id,label,language,email,license,version,url,citation,logo,'
                   'metadata,modified FROM lexicons'):
            put(lex[r[0]], 'lexicon', r[1:])
        for r in c('SELECT dependent_rowid,provider_id,provider_version,provider_url,'
                   'provider_rowid FROM lexicon_dependencies'):
            put(lex.get(r[0]), 'dependencies', [r[1], r[2], r[3], lex.get(r[4]) if r[4] else None])
        for r in c('SELECT extension_rowid,base_id,base_version,base_url,base_rowid '
                   'FROM lexicon_extensions'):
            put(lex.get(r[0]), 'extends', [r[1], r[2], r[3], lex.get(r[4]) if r[4] else None])
        for r in c('SELECT id,lexicon_rowid,pos,metadata FROM entries'):
            put(lex.get(r[1]), 'entries', [r[0], r[2], r[3]])
        for r in c('SELECT rowid,id,lexicon_rowid,entry_rowid,form,normalized_form,script,rank '
                   'FROM forms'):
            put(lex.get(r[2]), 'forms', [ent.get(r[3]), r[1], r[4], r[5], r[6], r[7]])
        # ownerless: attributed to the lexicon owning the form (reported separately too)
        for r in c('SELECT form_rowid,value,variety,notation,phonemic,audio FROM pronunciations'):
            put('*ownerless*', 'pronunciations', [frm.get(r[0])] + list(r[1:]))
        for r in c('SELECT form_rowid,tag,category FROM tags'):
            put('*ownerless*', 'tags', [frm.get(r[0])] + list(r[1:]))
        for r in c('SELECT id,lexicon_rowid,ili_rowid,pos,lexicalized,lexfile_rowid,metadata '
                   'FROM synsets'):
            put(lex.get(r[1]), 'synsets',
                [r[0], ili.get(r[2]) if r[2] else None, r[3], r[4],
                 lf.get(r[5]) if r[5] else None, r[6]])
        for r in c('SELECT synset_rowid,definition,metadata FROM proposed_ilis'):
            put('*ownerless*', 'proposed_ilis', [syn.get(r[0]), r[1], r[2]])
        for r in c('SELECT id,lexicon_rowid,entry_rowid,entry_rank,synset_rowid,synset_rank,'
                   'lexicalized,metadata FROM senses'):
            put(lex.get(r[1]), 'senses', [r[0], ent.get(r[2]), r[3], syn.get(r[4]), r[5], r[6], r[7]])
        for t, smap, tmap in (('synset_relations', syn, syn), ('sense_relations', sen, sen),
                              ('sense_synset_relations', sen, syn)):
            for r in c('SELECT lexicon_rowid,source_rowid,target_rowid,type_rowid,metadata '
                       'FROM %s' % t):
                put(lex.get(r[0]), t, [smap.get(r[1]), tmap.get(r[2]), rt.get(r[3]), r[4]])
        for r in c('SELECT lexicon_rowid,synset_rowid,definition,language,sense_rowid,metadata '
                   'FROM definitions'):
            put(lex.get(r[0]), 'definitions',
                [syn.get(r[1]), r[2], r[3], sen.get(r[4]) if r[4] else None, r[5]])
        for r in c('SELECT lexicon_rowid,synset_rowid,example,language,metadata '
                   'FROM synset_examples'):
            put(lex.get(r[0]), 'synset_examples', [syn.get(r[1]), r[2], r[3], r[4]])
        for r in c('SELECT lexicon_rowid,sense_rowid,example,language,metadata '
                   'FROM sense_examples'):
            put(lex.get(r[0]), 'sense_examples', [sen.get(r[1]), r[2], r[3], r[4]])
        for r in c('SELECT lexicon_rowid,sense_rowid,count,metadata FROM counts'):
            put(lex.get(r[0]), 'counts', [sen.get(r[1]), r[2], r[3]])
        for r in c('SELECT sense_rowid,adjposition FROM adjpositions'):
            put('*ownerless*', 'adjpositions', [sen.get(r[0]), r[1]])
        for r in c('SELECT id,lexicon_rowid,frame FROM syntactic_behaviours'):
            put(lex.get(r[1]), 'syntactic_behaviours', [r[0], r[2]])
        for r in c('SELECT syntactic_behaviour_rowid,sense_rowid FROM syntactic_behaviour_senses'):
            put('*ownerless*', 'syntactic_behaviour_senses', [sb.get(r[0]), sen.get(r[1])])
        for owner in out.values():
            for rows in owner.values():
                rows.sort(key=lambda r: json.dumps(r, sort_keys=True, ensure_ascii=False))
        shared = {
            'ilis': sorted([[r[0], ist.get(r[1]), r[2], _cell(r[3])] for r in
                            c('SELECT id,status_rowid,definition,metadata FROM ilis')],
                           key=lambda r: r[0]),
            'relation_types': sorted(rt.values()),
            'lexfiles': sorted(lf.values()),
            'ili_statuses': sorted(ist.values()),
        }
        order = [lex[k] for k in sorted(lex)]
        return {'lexicons': out, 'shared': shared, 'order': order}
    finally:
        conn.close()
