"""Reference model of the wn store and query layer.

Built from the generator's document objects only (never from wn.lmf.load) and written
against the documentation / the property statements.  Trivial inside: dicts and lists.
"""
from __future__ import annotations

import fnmatch
import re

from .compare import (Bag, BagKnownExtras, SetOf, Merge, PrefixThenSet, OneOf, Any, Ambiguous,
                      HeadThenMerge)

F_RESIDUE = 'C05-form-annotations-survive-extension-removal'
F_SCOPE = 'C04-form-annotations-ignore-scope'
F_NAV = 'C10-navigation-by-id-ambiguous'

WS = re.compile(r'[ \t\n\r]+')


def norm_text(s: str) -> str:
    """The documented normalisation of text content (no xml:space=preserve)."""
    return WS.sub(' ', s).strip(' ')


def text_of(elem):
    """Text content as the reader reports it: XML whitespace normalised unless the element
    says xml:space="preserve" (WN-LMF 1.3)."""
    if elem.get('space') == 'preserve':
        return elem['text']
    return norm_text(elem['text'])


def K(spec, id_):
    return '%s|%s' % (spec, id_)


def spec_of(d):
    return '%s:%s' % (d['id'], d['version'])


def meta_of(x):
    m = x.get('meta')
    return dict(m) if m else {}


class DocIndex:
    """Id resolution inside one lexicon document (external ids belong to the base)."""

    def __init__(self, doc):
        self.doc = doc
        self.spec = spec_of(doc)
        self.base = spec_of(doc['extends']) if doc.get('extends') else None
        self.entry = {}      # id -> element
        self.sense = {}      # id -> (element, entry element)
        self.synset = {}
        for e in doc.get('entries', []):
            self.entry[e['id']] = e
            for s in e.get('senses', []):
                self.sense[s['id']] = (s, e)
        for ss in doc.get('synsets', []):
            self.synset[ss['id']] = ss

    def owner(self, elem):
        return self.base if elem.get('external') else self.spec

    def key_entry(self, eid):
        return K(self.owner(self.entry[eid]), eid)

    def key_sense(self, sid):
        return K(self.owner(self.sense[sid][0]), sid)

    def key_synset(self, ssid):
        return K(self.owner(self.synset[ssid]), ssid)

    def local_entries(self):
        return [e for e in self.doc.get('entries', []) if not e.get('external')]

    def local_synsets(self):
        return [s for s in self.doc.get('synsets', []) if not s.get('external')]

    def local_senses(self):
        """[(sense, entry)] of senses this document defines (also under external entries)."""
        return [(s, e) for e in self.doc.get('entries', []) for s in e.get('senses', [])
                if not s.get('external')]

    def frames_of(self, sid):
        """Frame strings this document links to sense *sid* (one per link)."""
        out = []
        doc = self.doc
        byid = {}
        for fr in doc.get('frames', []):
            if fr.get('id'):
                byid[fr['id']] = fr['subcategorizationFrame']
            for x in fr.get('senses', []) or []:
                if x == sid:
                    out.append(fr['subcategorizationFrame'])
        ent = self.sense.get(sid)
        if ent is not None:
            s, e = ent
            for fid in s.get('subcat', []) or []:
                out.append(byid[fid])
            if not e.get('external'):
                allids = [x['id'] for x in e.get('senses', [])]
                for fr in e.get('frames', []) or []:
                    covered = fr.get('senses') or allids
                    for x in covered:
                        if x == sid:
                            out.append(fr['subcategorizationFrame'])
        return out


class Model:
    def __init__(self, universe):
        self.u = universe
        self.docs = dict(universe['lexicons'])   # spec -> current release of that lexicon
        self.alt = dict(universe.get('alt') or {})
        self.idx = {sp: DocIndex(d) for sp, d in self.docs.items()}
        self.installed: list[str] = []          # add order == rowid order
        self.ilis: dict = {}                    # id -> {status, definition, meta}
        self.reltypes: set = set()
        self.lexfiles: set = set()
        self.ili_statuses = {'presupposed', 'proposed'}
        self.residue: set = set()               # entry keys whose forms keep annotations of
                                                # an extension that has been removed

    def copy(self):
        m = Model.__new__(Model)
        m.u, m.docs, m.idx, m.alt = self.u, self.docs, self.idx, self.alt
        m.installed = list(self.installed)
        m.ilis = {k: dict(v) for k, v in self.ilis.items()}
        m.reltypes = set(self.reltypes)
        m.lexfiles = set(self.lexfiles)
        m.ili_statuses = set(self.ili_statuses)
        m.residue = set(self.residue)
        return m

    # -- mutations ------------------------------------------------------------------------
    def rerelease(self, sp):
        """The publisher replaces the content behind an id:version that is not installed."""
        if sp not in self.alt or sp in self.installed:
            return False
        self.docs[sp], self.alt[sp] = self.alt[sp], self.docs[sp]
        self.idx[sp] = DocIndex(self.docs[sp])
        self.__dict__.pop('_memo', None)
        return True

    def plan_add(self, specs):
        """Which lexicons of a resource get added (documented skip rules; decided before
        anything is added)."""
        todo = []
        for sp in specs:
            doc = self.docs[sp]
            if sp in self.installed:
                continue
            if doc.get('extends') and spec_of(doc['extends']) not in self.installed:
                continue
            todo.append(sp)
        return todo

    def add_resource(self, specs):
        todo = self.plan_add(specs)
        for sp in todo:
            self._install(sp)
        return todo

    def _install(self, sp):
        doc = self.docs[sp]
        ix = self.idx[sp]
        for ss in doc.get('synsets', []):
            for r in ss.get('relations', []) or []:
                self.reltypes.add(r['relType'])
        for e in doc.get('entries', []):
            for s in e.get('senses', []):
                for r in s.get('relations', []) or []:
                    self.reltypes.add(r['relType'])
        for ss in ix.local_synsets():
            if ss.get('lexfile'):
                self.lexfiles.add(ss['lexfile'])
            ili = ss.get('ili')
            if ili and ili != 'in' and ili not in self.ilis:
                d = ss.get('ili_definition')
                self.ilis[ili] = {'status': 'presupposed',
                                  'definition': text_of(d) if d else None,
                                  'meta': (dict(d['meta']) if d and d.get('meta') else None)}
        self.installed.append(sp)

    def add_ili(self, ili_file):
        rows = [r for r in ili_file['rows'] if not r.get('blank')]
        for r in rows:
            st = r.get('status', 'active') if 'status' in ili_file['columns'] else 'active'
            self.ili_statuses.add(st)
        for r in rows:
            st = r.get('status', 'active') if 'status' in ili_file['columns'] else 'active'
            df = r.get('definition', '') if 'definition' in ili_file['columns'] else None
            cur = self.ilis.get(r['ili'])
            if cur is None:
                self.ilis[r['ili']] = {'status': st, 'definition': df, 'meta': None}
            else:
                cur['status'] = st
                cur['definition'] = df

    def describe_counts(self, sp):
        """What Lexicon.describe() counts for an installed lexicon: its own words and synsets
        per part of speech, its own senses, and the ILIs (proposed ones included) its synsets
        carry."""
        ix = self.idx[sp]
        words, synsets = {}, {}
        for e in ix.local_entries():
            pos = e['lemma'].get('partOfSpeech')
            words[pos] = words.get(pos, 0) + 1
        ilis, proposed = set(), 0
        for ss in ix.local_synsets():
            pos = ss.get('partOfSpeech')
            synsets[pos] = synsets.get(pos, 0) + 1
            i = ss.get('ili')
            if i == 'in':
                proposed += 1
            elif i:
                ilis.add(i)
        return {'words': words, 'senses': len(ix.local_senses()), 'synsets': synsets,
                'ilis': len(ilis) + proposed}

    def extensions_of(self, sp, depth=-1):
        """Installed (transitive) extensions of *sp*, nearest first."""
        out, frontier, d = [], [sp], 0
        while frontier and (depth < 0 or d < depth):
            nxt = []
            for x in self.installed:
                b = self.idx[x].base
                if b in frontier and x not in out:
                    out.append(x)
                    nxt.append(x)
            frontier = nxt
            d += 1
        return out

    def bases_of(self, sp):
        out = []
        b = self.idx[sp].base
        while b is not None:
            out.append(b)
            b = self.idx[b].base
        return out

    def family(self, sp):
        """own lexicon + bases + extensions (the default-mode scope of an entity)."""
        return [sp] + self.bases_of(sp) + self.extensions_of(sp)

    def remove_specs(self, matched):
        """Remove each matched lexicon with all its transitive extensions; returns the list
        of per-lexicon transactions [[removed specs...], ...] in order."""
        txns = []
        for sp in matched:
            if sp not in self.installed:
                # already removed as the extension of an earlier match
                txns.append([])
                continue
            victims = self.extensions_of(sp) + [sp]
            for v in victims:
                self.installed.remove(v)
            for v in victims:
                b = self.idx[v].base
                if b is not None and b in self.installed:
                    self.residue |= self.annotated_entries(v)
                self.residue = {k for k in self.residue if not k.startswith(v + '|')}
            txns.append(victims)
        return txns

    def annotated_entries(self, x):
        """Keys of base entries whose lemma/forms extension *x* gives tags or pronunciations."""
        out = set()
        ix = self.idx[x]
        for e in ix.doc.get('entries', []):
            if not e.get('external'):
                continue
            fs = ([e['lemma']] if e.get('lemma') else []) + [f for f in e.get('forms', [])
                                                              if f.get('external')]
            if any(f.get('tags') or f.get('pronunciations') for f in fs):
                out.add(K(ix.base, e['id']))
        return out

    # -- C08: specifier selection ---------------------------------------------------------
    def select(self, lexicon: str, lang=None):
        """Specs selected by a specifier string (documented table), in no promised order.
        Returns a list without duplicates (ordered by installation for determinism)."""
        chosen = []
        for part in lexicon.split():
            bare = ':' not in part
            pat = part + ':*' if bare else part
            matches = [sp for sp in self.installed
                       if glob_match(pat, sp)
                       and (lang is None or self.docs[sp]['language'] == lang)]
            if bare and not any(c in part for c in '*?['):
                matches = matches[-1:]          # the most recently added one
            for m in matches:
                if m not in chosen:
                    chosen.append(m)
        return chosen

    def scope(self, lexicon=None, lang=None):
        """(selected specs, default_mode) of Wordnet(lexicon, lang=lang)."""
        default = not lexicon and not lang
        return self.select(lexicon or '*', lang), default

    def expand_set(self, S, default, expand):
        """(expand specs, missing dependency specs) per the documented rule."""
        if expand is None:
            if default:
                return list(self.installed), []
            E, missing = [], []
            for sp in S:
                for d in self.docs[sp].get('requires', []):
                    ds = spec_of(d)
                    if ds in self.installed:
                        if ds not in E:
                            E.append(ds)
                    elif ds not in missing:
                        missing.append(ds)
            return E, missing
        if expand == '':
            return [], []
        return self.select(expand), []

    # -- ILI helpers ------------------------------------------------------------------------
    def synsets_with_ili(self, ili, specs):
        out = []
        for sp in specs:
            if sp not in self.installed:
                continue
            by = self.idx[sp].__dict__.get('_by_ili')
            if by is None:
                by = {}
                for ss in self.idx[sp].local_synsets():
                    by.setdefault(ss.get('ili'), []).append(K(sp, ss['id']))
                self.idx[sp]._by_ili = by
            out.extend(by.get(ili, []))
        return out

    def ili_of(self, key):
        sp, id_ = key.split('|', 1)
        ss = self.idx[sp].synset[id_]
        i = ss.get('ili')
        return i if i and i != 'in' else None

    def expanded_relations(self, key, lexscope, E, types=None):
        """Relations borrowed through the expand lexicons E for synset *key* whose own
        scope is *lexscope*: list of {'name','source','target_id','lexicon','target'} where
        target is a synset key of lexscope or {'inferred': ili}."""
        ili = self.ili_of(key)
        if ili is None or not E:
            return []
        out = []
        eix = self._index(E)
        for y in self.synsets_with_ili(ili, E):
            if y == key:
                continue
            for r in eix.get(('ss', y), []):
                typ, t, d, meta = r['name'], r['target'], r['lexicon'], r['meta']
                if types and typ not in types:
                    continue
                tili = self.ili_of(t)
                if tili is None:
                    continue
                local = self.synsets_with_ili(tili, lexscope)
                base = {'name': typ, 'source': y.split('|', 1)[1],
                        'target_id': t.split('|', 1)[1], 'lexicon': d, 'meta': meta}
                if local:
                    for lk in local:
                        out.append(dict(base, target=lk))
                else:
                    out.append(dict(base, target={'inferred': tili}))
        return out

    # -- dependency links -----------------------------------------------------------------
    def requires(self, sp):
        return {spec_of(d): (spec_of(d) in self.installed)
                for d in self.docs[sp].get('requires', [])}

    # -- images -----------------------------------------------------------------------------
    def lexicon_image(self, sp):
        d = self.docs[sp]
        return {
            'id': d['id'], 'version': d['version'], 'label': d['label'],
            'language': d['language'], 'email': d['email'], 'license': d['license'],
            'url': d.get('url'), 'citation': d.get('citation'), 'logo': d.get('logo'),
            'meta': meta_of(d),
            'requires': self.requires(sp),
            'extends': self.idx[sp].base,
            'extensions': SetOf(self.extensions_of(sp, depth=1)),
            'extensions_all': SetOf(self.extensions_of(sp, depth=-1)),
            'modified': False,      # nothing in the library modifies an installed lexicon
        }

    def _exts_in(self, sp, scope):
        """Installed direct extensions of *sp* that are in *scope*."""
        return [x for x in scope if x in self.installed and self.idx[x].base == sp]

    def form_image(self, f, extra_tags, extra_prons, lemma=False, fid=None):
        tags = [[norm_text(t['text']), t['category']] for t in f.get('tags', [])]
        prons = [pron_image(p) for p in f.get('pronunciations', [])]
        mk = (lambda items: BagKnownExtras(items, fid)) if fid else Bag
        return {'form': f['writtenForm'], 'id': None if lemma else f.get('id'),
                'script': f.get('script'),
                'tags': mk(tags + extra_tags), 'prons': mk(prons + extra_prons)}

    def image(self, scope, relations=True, default_mode=False):
        """Expected public-API picture of ``Wordnet(lexicon=' '.join(scope))`` (or of the
        default-mode Wordnet when *default_mode*; then every entity's own scope is its
        family)."""
        scope = [sp for sp in scope if sp in self.installed]
        img = {'lexicons': {}, 'words': {}, 'senses': {}, 'synsets': {}}
        for sp in scope:
            img['lexicons'][sp] = self.lexicon_image(sp)

        def escope(owner):
            if default_mode:
                return [x for x in self.family(owner) if x in self.installed]
            return scope

        for sp in scope:
            ix = self.idx[sp]
            # ---- words
            for e in ix.local_entries():
                sc = escope(sp)
                exts = self._exts_in(sp, sc)
                xents = [(x, self.idx[x].entry[e['id']]) for x in exts
                         if e['id'] in self.idx[x].entry
                         and self.idx[x].entry[e['id']].get('external')]
                forms = []
                lem = e['lemma']
                fid = None
                if K(sp, e['id']) in self.residue:
                    fid = F_RESIDUE
                for x in self.extensions_of(sp, depth=1):
                    if x not in sc and K(sp, e['id']) in self.annotated_entries(x):
                        fid = F_SCOPE
                xt, xp = [], []
                for x, xe in xents:
                    xl = xe.get('lemma')
                    if xl:
                        xt += [[norm_text(t['text']), t['category']] for t in xl.get('tags', [])]
                        xp += [pron_image(p) for p in xl.get('pronunciations', [])]
                forms.append(self.form_image(lem, xt, xp, lemma=True, fid=fid))
                for f in e.get('forms', []):
                    xt, xp = [], []
                    if f.get('id'):
                        for x, xe in xents:
                            for xf in xe.get('forms', []):
                                if xf.get('external') and xf['id'] == f['id']:
                                    xt += [[norm_text(t['text']), t['category']]
                                           for t in xf.get('tags', [])]
                                    xp += [pron_image(p) for p in xf.get('pronunciations', [])]
                    forms.append(self.form_image(f, xt, xp, fid=fid))
                # forms that in-scope extensions add to this word (ordered within their
                # document; how the documents interleave is not stated anywhere)
                added = []
                for x, xe in xents:
                    mine = [self.form_image(xf, [], [], fid=fid) for xf in xe.get('forms', [])
                            if not xf.get('external')]
                    if mine:
                        added.append(mine)
                if added:
                    forms = HeadThenMerge(forms[0], [forms[1:]] + added,
                                          ('form', 'id', 'script'))
                groups = [[K(sp, s['id']) for s in e.get('senses', [])
                           if not s.get('external')]]
                for x, xe in xents:
                    groups.append([K(x, s['id']) for s in xe.get('senses', [])
                                   if not s.get('external')])
                img['words'][K(sp, e['id'])] = {
                    'pos': lem['partOfSpeech'], 'lemma': lem['writtenForm'],
                    'forms': forms, 'senses': Merge(groups), 'meta': meta_of(e)}
            # ---- senses
            for s, e in ix.local_senses():
                sc = escope(sp)
                exts = self._exts_in(sp, sc)
                xs = []
                for x in exts:
                    ent = self.idx[x].sense.get(s['id'])
                    if ent and ent[0].get('external'):
                        xs.append((x, ent[0]))
                examples = [text_of(ex) for ex in s.get('examples', [])]
                counts = [[c['value'], meta_of(c)] for c in s.get('counts', [])]
                frames = list(ix.frames_of(s['id']))
                for x, xsn in xs:
                    examples += [text_of(ex) for ex in xsn.get('examples', [])]
                    counts += [[c['value'], meta_of(c)] for c in xsn.get('counts', [])]
                    frames += self.idx[x].frames_of(s['id'])
                nav = list(self.installed) if default_mode else scope
                im = {
                    'word': self._nav(ix.key_entry(e['id']), nav, 'entry'),
                    'synset': self._nav(ix.key_synset(s['synset']), nav, 'synset'),
                    'examples': Bag(examples), 'counts': Bag(counts), 'frames': Bag(frames),
                    'adjposition': s.get('adjposition'),
                    'lexicalized': s.get('lexicalized', True),
                    'meta': meta_of(s),
                }
                if relations:
                    im['relations'] = self.sense_relations(K(sp, s['id']), sc)
                img['senses'][K(sp, s['id'])] = im
            # ---- synsets
            for ss in ix.local_synsets():
                sc = escope(sp)
                exts = self._exts_in(sp, sc)
                xss = [(x, self.idx[x].synset[ss['id']]) for x in exts
                       if ss['id'] in self.idx[x].synset
                       and self.idx[x].synset[ss['id']].get('external')]
                defs = [text_of(d) for d in ss.get('definitions', [])]
                if defs:
                    definition = defs[0]
                else:
                    firsts = [text_of(xs_['definitions'][0]) for _, xs_ in xss
                              if xs_.get('definitions')]
                    definition = OneOf(firsts) if firsts else None
                examples = [text_of(ex) for ex in ss.get('examples', [])]
                for x, xs_ in xss:
                    examples += [text_of(ex) for ex in xs_.get('examples', [])]
                declared = [K(sp, m) for m in ss.get('members', []) or []]
                others = []
                for x in [sp] + exts:
                    for s2, _e2 in self.idx[x].local_senses():
                        if self.idx[x].key_synset(s2['synset']) == K(sp, ss['id']):
                            k2 = K(x, s2['id'])
                            if k2 not in declared:
                                others.append(k2)
                ili = ss.get('ili') or None
                if ili == 'in':
                    d = ss.get('ili_definition')
                    ili_img = {'id': None, 'status': 'proposed',
                               'definition': text_of(d) if d else None,
                               'meta': meta_of(d) if d else {}}
                elif ili:
                    ili_img = {'id': ili}
                else:
                    ili_img = None
                im = {
                    'pos': ss.get('partOfSpeech'), 'ili': ili_img,
                    'definition': definition, 'examples': Bag(examples),
                    'lexfile': ss.get('lexfile'), 'lexicalized': ss.get('lexicalized', True),
                    'members': PrefixThenSet(declared, others), 'meta': meta_of(ss),
                }
                if relations:
                    im['relations'] = self.synset_relations(K(sp, ss['id']), sc)
                img['synsets'][K(sp, ss['id'])] = im
        return img

    def _nav(self, key, nav_scope, kind):
        """Expected result of Sense.word()/synset(): the declared entity when it is in the
        navigation scope (nothing is promised otherwise)."""
        owner, id_ = key.split('|', 1)
        if owner not in nav_scope:
            return Any()
        others = []
        for sp2 in nav_scope:
            if sp2 == owner or sp2 not in self.installed:
                continue
            el = (self.idx[sp2].entry if kind == 'entry' else self.idx[sp2].synset).get(id_)
            if el is not None and not el.get('external'):
                others.append(K(sp2, id_))
        if others:
            return Ambiguous(key, others, F_NAV)
        return key

    # -- relations (C11) ------------------------------------------------------------------
    def _declared(self, scope):
        """All relations declared by the lexicons of *scope*:
        yields (kind, source key, target key, relType, defining spec, meta)."""
        for d in scope:
            if d not in self.installed:
                continue
            ix = self.idx[d]
            for ss in ix.doc.get('synsets', []):
                for r in ss.get('relations', []) or []:
                    yield ('ss', ix.key_synset(ss['id']), ix.key_synset(r['target']),
                           r['relType'], d, meta_of(r))
            for e in ix.doc.get('entries', []):
                for s in e.get('senses', []):
                    for r in s.get('relations', []) or []:
                        if r['target'] in ix.sense:
                            yield ('s_s', ix.key_sense(s['id']), ix.key_sense(r['target']),
                                   r['relType'], d, meta_of(r))
                        else:
                            yield ('s_ss', ix.key_sense(s['id']), ix.key_synset(r['target']),
                                   r['relType'], d, meta_of(r))

    def _index(self, scope):
        """{(kind, source key): [relation, ...]} of everything declared by *scope*, memoised
        per (scope, installed set)."""
        key = (tuple(scope), tuple(self.installed))
        memo = self.__dict__.setdefault('_memo', {})
        if key not in memo:
            if len(memo) > 64:
                memo.clear()
            ix = {}
            sc = set(scope)
            for k, s, t, typ, d, meta in self._declared(scope):
                if t.split('|', 1)[0] in sc:
                    ix.setdefault((k, s), []).append(
                        {'name': typ, 'source': s.split('|', 1)[1], 'target': t,
                         'lexicon': d, 'meta': meta})
            memo[key] = ix
        return memo[key]

    def _rels(self, kind, src, scope):
        return [dict(r) for r in self._index(scope).get((kind, src), [])]

    def sense_relations(self, key, scope):
        # exact duplicates collapse (the statement promises the declared relations, not
        # their multiplicity): compare as sets
        return {'senses': SetOf(self._rels('s_s', key, scope)),
                'synsets': SetOf(self._rels('s_ss', key, scope))}

    def synset_relations(self, key, scope):
        return {'synsets': SetOf(self._rels('ss', key, scope))}


def pron_image(p):
    return [norm_text(p['text']), p.get('variety'), p.get('notation'),
            p.get('phonemic', True), p.get('audio')]


def glob_match(pat, s):
    """SQLite GLOB: case-sensitive; * ? [..] [^..]; no escape character."""
    return _glob(pat, 0, s, 0)


def _glob(p, i, s, j):
    while i < len(p):
        c = p[i]
        if c == '*':
            while i < len(p) and p[i] == '*':
                i += 1
            if i == len(p):
                return True
            for k in range(j, len(s) + 1):
                if _glob(p, i, s, k):
                    return True
            return False
        if j >= len(s):
            return False
        if c == '?':
            i += 1
            j += 1
            continue
        if c == '[':
            k = i + 1
            neg = False
            if k < len(p) and p[k] == '^':
                neg = True
                k += 1
            members = []
            first = True
            while k < len(p) and (p[k] != ']' or first):
                first = False
                if k + 2 < len(p) and p[k + 1] == '-' and p[k + 2] != ']':
                    members.append((p[k], p[k + 2]))
                    k += 3
                else:
                    members.append((p[k], p[k]))
                    k += 1
            if k >= len(p):
                return False      # unterminated class never matches
            hit = any(lo <= s[j] <= hi for lo, hi in members)
            if hit == neg:
                return False
            i = k + 1
            j += 1
            continue
        if c != s[j]:
            return False
        i += 1
        j += 1
    return j == len(s)
