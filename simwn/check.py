#!/venv/bin/python
"""CLI of the wn simulator.

  check.py <Cxx> --tier quick|thorough      run the check of one property
  check.py <Cxx> --replay FILE              re-execute one replay file
  check.py selftest determinism|sensitivity

Exit 0: property held on everything explored (KNOWN-FINDING lines may be printed);
exit 1 + "VIOLATION property=<id> replay=<path>": an unlisted violation;
exit 2: harness error / watchdog (never a pass, never a violation).
"""
from __future__ import annotations

import faulthandler
import importlib
import json
import os
import re
import subprocess
import sys
import time

HERE = os.path.dirname(os.path.abspath(__file__))
VERIF = os.path.dirname(HERE)
OUT = os.environ.get('VERIF_OUT', VERIF)     # evidence/ and replays/ go here
if VERIF not in sys.path:
    sys.path.insert(0, VERIF)

PY = sys.executable
HASH_CLASSES = ['0', '1', '17', '4242']

# (quick runs, thorough runs, quick wall cap s, thorough wall cap s)
SIZES = {
    'C01': (6000, 60000, 150, 1700),
    'C03': (5000, 50000, 150, 1700),
    'C04': (3000, 30000, 150, 1700),
    'C05': (3200, 32000, 150, 1700),
    'C06': (120, 1200, 150, 1700),
    'C07': (2000, 20000, 150, 1700),
    'C08': (4000, 40000, 150, 1700),
    'C10': (3000, 30000, 150, 1700),
    'C11': (3000, 30000, 150, 1700),
    'C12': (3000, 30000, 150, 1700),
    'C16': (40, 400, 150, 1700),
    'C19': (2600, 26000, 150, 1700),
    'C20': (48, 480, 150, 1700),
}

REAL_VS_STUB = {
    'real': ['all of wn (add/remove/export/lmf/project/_queries/_core/taxonomy/similarity/'
             'validate/ic/morphy)', 'SQLite engine on a real database file (tmpfs)',
             'gzip/lzma/tarfile/tempfile', 'expat'],
    'wrapped': ['sqlite3.connect inside wn._db (factory=SimConnection: counting, injected '
                'OperationalError, authorizer, VM-progress interval, statement budget)',
                'progress_handler class (counting, raising at callback k)',
                'wn._add.BATCH_SIZE', 'wn.lmf.open (short reads)', 'pathlib.Path.iterdir '
                '(seeded order)', 'wn.config.data_directory (nodes)', 'wn._db.pool (restart)'],
    'absent': ['network (wn.download)', 'clock (wn has none outside download)',
               'wn-owned threads (none exist)'],
}


def module(prop):
    return importlib.import_module('simwn.checks.' + prop.lower())


# -- worker -----------------------------------------------------------------------------------

def worker_main(prop, tier, seedfile, outfile, deadline_s):
    faulthandler.enable()
    mod = module(prop)
    seeds = json.load(open(seedfile, encoding='utf-8'))
    t0 = time.time()
    n = 0
    with open(outfile, 'w', encoding='utf-8') as out:
        for s in seeds:
            if time.time() - t0 > deadline_s:
                break
            faulthandler.dump_traceback_later(max(900, deadline_s * 4), exit=True)
            r = mod.run_one(s, tier)
            faulthandler.cancel_dump_traceback_later()
            n += 1
            if r.get('violation') is None:
                r.pop('replay', None)
                if n > 3:
                    r.pop('sample', None)
            out.write(json.dumps(r, ensure_ascii=False, default=str) + '\n')
            out.flush()
    return 0


# -- known findings ---------------------------------------------------------------------------

def load_known():
    p = os.path.join(VERIF, 'known_findings.json')
    if not os.path.exists(p):
        return []
    return json.load(open(p, encoding='utf-8')).get('findings', [])


def match_known(prop, v, known):
    for k in known:
        if k['property'] != prop:
            continue
        m = k['match']
        if m.get('inline'):
            continue        # tolerated (and counted) inside the oracle itself
        if 'oracle' in m and m['oracle'] != v['oracle']:
            continue
        if 'message_re' in m and not re.search(m['message_re'], v['message']):
            continue
        if 'tags_all' in m and not set(m['tags_all']) <= set(v.get('tags', [])):
            continue
        if 'tags_none' in m and set(m['tags_none']) & set(v.get('tags', [])):
            continue
        return k
    return None


# -- master -----------------------------------------------------------------------------------

def seeds_for(prop, base_seed, n):
    """Run seeds are a pure function of VERIF_SEED and the run index."""
    start = base_seed * 1000003 + 1
    return [start + i for i in range(n)]


def hash_class(seed):
    return seed % len(HASH_CLASSES)


def run_check(prop, tier):
    mod = module(prop)
    base_seed = int(os.environ.get('VERIF_SEED', '0'))
    jobs = int(os.environ.get('VERIF_JOBS', '16'))
    jobs = max(len(HASH_CLASSES), jobs - jobs % len(HASH_CLASSES))
    qn, tn, qcap, tcap = SIZES[prop]
    n = qn if tier == 'quick' else tn
    cap = qcap if tier == 'quick' else tcap
    if os.environ.get('VERIF_RUNS'):
        n = int(os.environ['VERIF_RUNS'])
    if os.environ.get('VERIF_BUDGET_S'):
        cap = int(os.environ['VERIF_BUDGET_S'])
    seeds = seeds_for(prop, base_seed, n)
    per_class = len(HASH_CLASSES)
    wpc = jobs // per_class                 # workers per hash class
    buckets = {}
    for s in seeds:
        c = hash_class(s)
        k = (c, (s // per_class) % wpc)
        buckets.setdefault(k, []).append(s)
    tmp = os.path.join(os.environ.get('TMPDIR', '/tmp'), 'simwn-check-%s-%d' % (prop, os.getpid()))
    os.makedirs(tmp, exist_ok=True)
    t0 = time.time()
    procs = []
    for (c, j), ss in sorted(buckets.items()):
        sf = os.path.join(tmp, 'seeds-%d-%d.json' % (c, j))
        of = os.path.join(tmp, 'out-%d-%d.jsonl' % (c, j))
        json.dump(ss, open(sf, 'w', encoding='utf-8'))
        env = class_env(c)
        p = subprocess.Popen([PY, os.path.abspath(__file__), '--worker', prop, tier, sf, of,
                              str(cap)], env=env, stdout=subprocess.PIPE,
                             stderr=subprocess.STDOUT, text=True)
        procs.append((p, of, ss))
    results = []
    harness_errors = []
    for p, of, ss in procs:
        try:
            outtxt, _ = p.communicate(timeout=cap + 1200)
        except subprocess.TimeoutExpired:
            p.kill()
            outtxt, _ = p.communicate()
            harness_errors.append('worker timeout: ' + outtxt[-2000:])
        if p.returncode != 0:
            harness_errors.append('worker exit %s: %s' % (p.returncode, outtxt[-3000:]))
        if os.path.exists(of):
            for line in open(of, encoding='utf-8'):
                line = line.strip()
                if line:
                    results.append(json.loads(line))
    wall = time.time() - t0
    rc = finish(prop, tier, mod, base_seed, results, wall, harness_errors, n, tmp)
    import shutil
    shutil.rmtree(tmp, ignore_errors=True)
    return rc


def class_env(c):
    """Process-level configuration is part of the environment the simulator owns: every
    worker class has its own hash seed; the last class runs with a non-UTF-8 default text
    encoding (legacy locale), class 2 with `python -O` (assert statements are not executed)."""
    env = dict(os.environ)
    env['PYTHONHASHSEED'] = HASH_CLASSES[c]
    env['PYTHONDONTWRITEBYTECODE'] = '1'
    env['VERIF_PROCESS_CLASS'] = str(c)
    if c == len(HASH_CLASSES) - 1:
        env.update({'LC_ALL': 'C', 'LANG': 'C', 'PYTHONUTF8': '0', 'PYTHONCOERCECLOCALE': '0'})
    if c == 2:
        env['PYTHONOPTIMIZE'] = '1'
    return env


def finish(prop, tier, mod, base_seed, results, wall, harness_errors, planned, tmp):
    known = load_known()
    results.sort(key=lambda r: r['seed'])
    violations = [r for r in results if r.get('violation')]
    unknown = []
    known_hits = {}
    for r in violations:
        k = match_known(prop, r['violation'], known)
        if k is not None:
            known_hits.setdefault(k['id'], []).append(r)
        else:
            unknown.append(r)
    for r in results:
        for fid, cnt in (r.get('known_hits') or {}).items():
            known_hits.setdefault(fid, []).append(r)
    # evidence ---------------------------------------------------------------------------
    faults = {}
    probes = {}
    states = set()
    digests = set()
    nontrivial = set()
    ops = 0
    cells = set()
    for r in results:
        ops += r.get('ops', 0)
        for k, v in (r.get('faults') or {}).items():
            faults[k] = faults.get(k, 0) + v
        for k, v in (r.get('probes') or {}).items():
            probes[k] = probes.get(k, 0) + v
        states.update(r.get('states') or [])
        cells.update(r.get('cells') or [])
        digests.add(r.get('digest'))
        if r.get('nontrivial'):
            nontrivial.add(r.get('digest'))
    samples = [r['sample'] for r in results if r.get('sample')][:3]
    evals = len(results)
    extra_cov = {}
    if hasattr(mod, 'coverage_extra'):
        extra_cov = mod.coverage_extra(results)
    coverage = {
        'evaluations': int(extra_cov.pop('evaluations', evals)),
        'distinct_nontrivial': int(extra_cov.pop('distinct_nontrivial', len(nontrivial))),
        'rule': mod.RULE,
        'samples': samples or [{'note': 'no sample recorded'}],
        'simulated_runs': evals,
        'planned_runs': planned,
        'logical_steps_ops': ops,
        'runs_per_hour': round(evals / wall * 3600) if wall > 0 else 0,
        'seeds_per_hour': round(evals / wall * 3600) if wall > 0 else 0,
        'simulated_time': 'n/a: wn has no clock; progress is measured in logical steps (ops, '
                          'SQL statements, progress callbacks)',
        'faults_fired_by_kind': faults,
        'distinct_store_states': len(states),
        'distinct_event_digests': len(digests),
        'stage_x_fault_cells': len(cells),
        'rare_condition_probes': probes,
        'hash_seed_classes': HASH_CLASSES,
        'components': REAL_VS_STUB,
        'known_findings_hit': {k: len(v) for k, v in known_hits.items()},
        'exhaustive': False,
    }
    coverage.update(extra_cov)
    ev = {
        'property_id': prop, 'tier': tier, 'seed': base_seed, 'level': mod.LEVEL,
        'coverage': coverage,
        'assumptions': getattr(mod, 'ASSUMPTIONS', []) + [
            'universes/documents are sampled by a seeded generator; the reference model is '
            'independent of wn but hand-written',
            'interleaving granularity is one public API call; no thread pre-emption, no SIGKILL'],
        'wall_s': round(wall, 2),
        'violations': len(unknown),
    }
    os.makedirs(os.path.join(OUT, 'evidence'), exist_ok=True)
    with open(os.path.join(OUT, 'evidence', prop + '.json'), 'w', encoding='utf-8') as f:
        json.dump(ev, f, indent=1, ensure_ascii=False, default=str)
    # report -----------------------------------------------------------------------------
    listed = [k for k in known if k['property'] == prop or k['id'] in known_hits]
    for k in sorted(listed, key=lambda x: x['id']):
        rs = known_hits.get(k['id'], [])
        if rs:
            note = '(tolerated in %d runs of this batch, e.g. seed %d)' % (len(rs), rs[0]['seed'])
        else:
            note = '(listed; not reached by this batch)'
        print('KNOWN-FINDING: property=%s %s %s' % (k['property'], k['what'], note))
    rc = 0
    if unknown:
        r = unknown[0]
        path = write_replay(prop, mod, r)
        print('VIOLATION property=%s replay=%s' % (prop, path))
        print('  seed=%d oracle=%s: %s' % (r['seed'], r['violation']['oracle'],
                                           r['violation']['message']))
        print('  detail: ' + json.dumps(r['violation'].get('detail'), ensure_ascii=False,
                                        default=str)[:1500])
        print('  (%d violating runs of %d; %d distinct signatures)' % (
            len(unknown), evals, len({x['violation']['signature'] for x in unknown})))
        seen = set()
        for x in unknown:
            sg = x['violation']['signature']
            if sg not in seen and len(seen) < 8:
                seen.add(sg)
                print('  signature: seed=%d %s :: %s' % (
                    x['seed'], sg, json.dumps(x['violation'].get('detail'), ensure_ascii=False,
                                              default=str)[:400]))
        rc = 1
    if harness_errors:
        for h in harness_errors[:3]:
            print('HARNESS-ERROR: ' + h.replace('\n', '\n    '))
        if rc == 0:
            rc = 2
    if evals == 0 and rc == 0:
        print('HARNESS-ERROR: no run completed')
        rc = 2
    print('SUMMARY property=%s tier=%s runs=%d ops=%d wall=%.1fs violations=%d known=%d '
          'faults=%s' % (prop, tier, evals, ops, wall, len(unknown),
                         sum(len(v) for v in known_hits.values()),
                         json.dumps(faults, sort_keys=True)))
    return rc


def write_replay(prop, mod, r):
    os.makedirs(os.path.join(OUT, 'replays'), exist_ok=True)
    obj = dict(r.get('replay') or {})
    obj.update({'format': 'simwn-replay-1', 'property': prop, 'seed': r['seed'],
                'hashseed': HASH_CLASSES[hash_class(r['seed'])],
                'process_class': hash_class(r['seed']),
                'violation': r['violation'], 'digest': r['digest']})
    if os.environ.get('VERIF_NO_MINIMISE') != '1' and hasattr(mod, 'replay'):
        try:
            from simwn import minimise
            obj = minimise.minimise(mod, obj, budget_s=float(os.environ.get(
                'VERIF_MINIMISE_S', '60')))
        except Exception as e:          # minimisation is best effort
            obj['minimise_error'] = repr(e)
    path = os.path.join(OUT, 'replays', '%s-%d.json' % (prop, r['seed']))
    with open(path, 'w', encoding='utf-8') as f:
        json.dump(obj, f, indent=1, ensure_ascii=False, default=str)
    return path


def run_replay(prop, path):
    obj = json.load(open(path, encoding='utf-8'))
    want = obj.get('hashseed')
    pc = obj.get('process_class')
    if pc is not None and os.environ.get('VERIF_PROCESS_CLASS') != str(pc):
        # same kind of process as the run that failed (hash seed, locale, -O)
        return subprocess.call([PY, os.path.abspath(__file__), prop, '--replay', path],
                               env=class_env(int(pc)))
    if pc is None and want is not None and os.environ.get('PYTHONHASHSEED') != str(want):
        env = dict(os.environ)
        env['PYTHONHASHSEED'] = str(want)
        return subprocess.call([PY, os.path.abspath(__file__), prop, '--replay', path], env=env)
    mod = module(prop)
    r = mod.replay(obj)
    v = r.get('violation')
    if v is None:
        print('REPLAY property=%s: no violation reproduced' % prop)
        return 0
    same = v['signature'] == obj['violation']['signature']
    print('VIOLATION property=%s replay=%s' % (prop, path))
    print('  oracle=%s: %s' % (v['oracle'], v['message']))
    print('  signature %s the recorded one; event digest %s (recorded %s)'
          % ('matches' if same else 'DIFFERS from', r['digest'], obj.get('digest')))
    print('  detail: ' + json.dumps(v.get('detail'), ensure_ascii=False, default=str)[:2000])
    return 1


def main(argv):
    if len(argv) >= 2 and argv[1] == '--worker':
        return worker_main(argv[2], argv[3], argv[4], argv[5], int(argv[6]))
    if len(argv) >= 2 and argv[1] == 'selftest':
        from simwn import selftest
        return selftest.main(argv[2:])
    prop = argv[1]
    tier = os.environ.get('VERIF_TIER', 'quick')
    i = 2
    replay = None
    while i < len(argv):
        if argv[i] == '--tier':
            tier = argv[i + 1]
            i += 2
        elif argv[i] == '--replay':
            replay = argv[i + 1]
            i += 2
        else:
            raise SystemExit('unknown argument %r' % argv[i])
    if replay:
        return run_replay(prop, replay)
    return run_check(prop, tier)


if __name__ == '__main__':
    try:
        rc = main(sys.argv)
    except SystemExit:
        raise
    except BaseException:
        import traceback
        traceback.print_exc()
        print('HARNESS-ERROR: check crashed')
        rc = 2
    sys.exit(rc)
