"""Delta debugging of a replay object (explicit universe + explicit plan) while the *same
violation signature* recurs.  Works on any check module whose ``replay(obj)`` executes the
file verbatim (universe + plan [+ pre/target/fault])."""
from __future__ import annotations

import copy
import json
import time


def spec(d):
    return '%s:%s' % (d['id'], d['version'])


# -- universe surgery ---------------------------------------------------------------------------

def repair(u):
    """Delete dangling references until the universe is referentially closed again."""
    lex = u['lexicons']
    changed = True
    while changed:
        changed = False
        # extensions whose base vanished
        for sp in list(lex):
            d = lex[sp]
            if d.get('extends') and spec(d['extends']) not in lex:
                del lex[sp]
                changed = True
        for sp, d in lex.items():
            base = lex.get(spec(d['extends'])) if d.get('extends') else None
            b_entries = {e['id']: e for e in (base or {}).get('entries', [])
                         if not e.get('external')}
            b_senses = {s['id'] for e in b_entries.values() for s in e.get('senses', [])
                        if not s.get('external')}
            b_synsets = {s['id'] for s in (base or {}).get('synsets', [])
                         if not s.get('external')}
            b_forms = {f['id'] for e in b_entries.values() for f in e.get('forms', [])
                       if f.get('id')}
            # externals must exist in the base
            keep = []
            for ss in d.get('synsets', []):
                if ss.get('external') and ss['id'] not in b_synsets:
                    changed = True
                    continue
                keep.append(ss)
            d['synsets'] = keep
            ss_ids = {s['id'] for s in d['synsets']}
            keep = []
            for e in d.get('entries', []):
                if e.get('external') and e['id'] not in b_entries:
                    changed = True
                    continue
                fs = []
                for f in e.get('forms', []):
                    if f.get('external') and f['id'] not in b_forms:
                        changed = True
                        continue
                    fs.append(f)
                e['forms'] = fs
                sn = []
                for s in e.get('senses', []):
                    if s.get('external'):
                        if s['id'] not in b_senses:
                            changed = True
                            continue
                    elif s['synset'] not in ss_ids:
                        changed = True
                        continue
                    sn.append(s)
                e['senses'] = sn
                keep.append(e)
            d['entries'] = keep
            sense_ids = {s['id'] for e in d['entries'] for s in e.get('senses', [])}
            local_sense_ids = {s['id'] for e in d['entries'] for s in e.get('senses', [])
                               if not s.get('external')}
            ids = sense_ids | ss_ids
            frame_ids = {f['id'] for f in d.get('frames', []) if f.get('id')}
            for e in d['entries']:
                for s in e.get('senses', []):
                    if s.get('relations'):
                        n = [r for r in s['relations'] if r['target'] in ids]
                        if len(n) != len(s['relations']):
                            s['relations'] = n
                            changed = True
                    if s.get('subcat'):
                        n = [x for x in s['subcat'] if x in frame_ids]
                        if len(n) != len(s['subcat']):
                            s['subcat'] = n
                            changed = True
                        if not s['subcat']:
                            del s['subcat']
                own = {s['id'] for s in e.get('senses', []) if not s.get('external')}
                if e.get('frames'):
                    nf = []
                    for fr in e['frames']:
                        if fr.get('senses'):
                            n = [x for x in fr['senses'] if x in own]
                            if not n:
                                changed = True
                                continue
                            if len(n) != len(fr['senses']):
                                fr['senses'] = n
                                changed = True
                        elif not own:
                            changed = True
                            continue
                        nf.append(fr)
                    e['frames'] = nf
            for fr in d.get('frames', []):
                if fr.get('senses'):
                    n = [x for x in fr['senses'] if x in sense_ids]
                    if len(n) != len(fr['senses']):
                        changed = True
                        fr['senses'] = n
                    if not fr['senses']:
                        del fr['senses']
            d['frames'] = [fr for fr in d.get('frames', []) if fr.get('id') or fr.get('senses')]
            for ss in d['synsets']:
                if ss.get('relations'):
                    n = [r for r in ss['relations'] if r['target'] in ss_ids]
                    if len(n) != len(ss['relations']):
                        ss['relations'] = n
                        changed = True
                if ss.get('members'):
                    n = [x for x in ss['members'] if x in local_sense_ids]
                    if len(n) != len(ss['members']):
                        ss['members'] = n
                        changed = True
                    if not ss['members']:
                        del ss['members']
                for df in ss.get('definitions', []) or []:
                    if df.get('sourceSense') and df['sourceSense'] not in sense_ids:
                        del df['sourceSense']
                        changed = True
    u['order'] = [sp for sp in u['order'] if sp in lex]
    res = []
    for r in u['resources']:
        r['lexicons'] = [sp for sp in r['lexicons'] if sp in lex]
        if r['lexicons']:
            res.append(r)
    u['resources'] = res
    return u


def fix_plan(obj):
    names = {r['name'] for r in obj['universe']['resources']}
    inames = {f['name'] for f in obj['universe'].get('ili_files', [])}
    for key in ('plan', 'pre'):
        if key in obj and obj[key] is not None:
            out = []
            for op in obj[key]:
                if op['op'] == 'add' and op['res'] not in names:
                    continue
                if op['op'] == 'add_ili' and op['file'] not in inames:
                    continue
                if op['op'] == 'export_reimport':
                    op = dict(op, specs=[s for s in op['specs']
                                         if s in obj['universe']['lexicons']])
                    if not op['specs']:
                        continue
                out.append(op)
            obj[key] = out
    if obj.get('target') and obj['target'].get('op') == 'add' \
            and obj['target']['res'] not in names:
        return None
    return obj


# -- candidate generators -----------------------------------------------------------------------

def candidates(obj):
    """Yield (description, candidate) pairs, roughly from coarse to fine."""
    for key in ('plan', 'pre'):
        ops = obj.get(key)
        if not ops:
            continue
        n = len(ops)
        if n > 3:
            yield 'halve %s' % key, dict(obj, **{key: ops[:n // 2]})
        for i in reversed(range(n)):
            yield 'drop %s[%d]' % (key, i), dict(obj, **{key: ops[:i] + ops[i + 1:]})
    u = obj['universe']
    for sp in list(u['lexicons']):
        c = copy.deepcopy(obj)
        del c['universe']['lexicons'][sp]
        yield 'drop lexicon %s' % sp, c
    for f in list(u.get('ili_files', [])):
        c = copy.deepcopy(obj)
        c['universe']['ili_files'] = [x for x in c['universe']['ili_files']
                                      if x['name'] != f['name']]
        yield 'drop ili file %s' % f['name'], c
    for fi, f in enumerate(u.get('ili_files', [])):
        for ri in reversed(range(len(f['rows']))):
            c = copy.deepcopy(obj)
            del c['universe']['ili_files'][fi]['rows'][ri]
            yield 'drop ili row', c
    for sp, d in u['lexicons'].items():
        for coll in ('entries', 'synsets', 'frames', 'requires'):
            for i in reversed(range(len(d.get(coll, []) or []))):
                c = copy.deepcopy(obj)
                del c['universe']['lexicons'][sp][coll][i]
                yield 'drop %s %s[%d]' % (sp, coll, i), c
    for sp, d in u['lexicons'].items():
        for ei, e in enumerate(d.get('entries', [])):
            for coll in ('senses', 'forms', 'frames'):
                for i in reversed(range(len(e.get(coll, []) or []))):
                    c = copy.deepcopy(obj)
                    del c['universe']['lexicons'][sp]['entries'][ei][coll][i]
                    yield 'drop %s entry %d %s[%d]' % (sp, ei, coll, i), c
            lem = e.get('lemma') or {}
            for coll in ('tags', 'pronunciations'):
                if lem.get(coll):
                    c = copy.deepcopy(obj)
                    c['universe']['lexicons'][sp]['entries'][ei]['lemma'][coll] = []
                    yield 'clear lemma %s' % coll, c
            for si, s in enumerate(e.get('senses', [])):
                for coll in ('relations', 'examples', 'counts', 'subcat'):
                    if s.get(coll):
                        c = copy.deepcopy(obj)
                        c['universe']['lexicons'][sp]['entries'][ei]['senses'][si][coll] = []
                        yield 'clear sense %s' % coll, c
        for si, ss in enumerate(d.get('synsets', [])):
            for coll in ('relations', 'examples', 'definitions', 'members'):
                if ss.get(coll):
                    c = copy.deepcopy(obj)
                    c['universe']['lexicons'][sp]['synsets'][si][coll] = []
                    yield 'clear synset %s' % coll, c
    # knobs
    for key in ('plan', 'pre'):
        for i, op in enumerate(obj.get(key) or []):
            for k in ('route', 'batch', 'short_reads', 'quote', 'shuffle_dirs'):
                if k in op:
                    c = copy.deepcopy(obj)
                    del c[key][i][k]
                    yield 'default knob %s' % k, c


def strip_meta(obj):
    c = copy.deepcopy(obj)

    def walk(x):
        if isinstance(x, dict):
            if 'meta' in x and x['meta']:
                x['meta'] = None
            for v in x.values():
                walk(v)
        elif isinstance(x, list):
            for v in x:
                walk(v)
    walk(c['universe']['lexicons'])
    return c


def minimise(mod, obj, budget_s=60.0):
    if 'universe' not in obj or not hasattr(mod, 'replay') or budget_s <= 0:
        return obj
    if not any(k in obj for k in ('plan', 'pre')):
        return obj
    sig = obj['violation']['signature']
    t0 = time.time()
    tried = 0

    def fails(cand):
        nonlocal tried
        cand = fix_plan(cand)
        if cand is None:
            return None
        try:
            cand['universe'] = repair(cand['universe'])
            if not cand['universe']['resources']:
                return None
            tried += 1
            r = mod.replay(cand)
        except Exception:
            return None
        v = r.get('violation')
        if v is not None and v['signature'] == sig:
            cand['violation'] = v
            cand['digest'] = r['digest']
            return cand
        return None

    cur = copy.deepcopy(obj)
    base = fails(copy.deepcopy(cur))
    if base is None:
        obj['minimised'] = {'status': 'not reproducible from the explicit file', 'tried': tried}
        return obj
    cur = base
    c = fails(strip_meta(cur))
    if c is not None:
        cur = c
    progress = True
    rounds = 0
    while progress and time.time() - t0 < budget_s:
        progress = False
        rounds += 1
        for desc, cand in candidates(cur):
            if time.time() - t0 > budget_s:
                break
            c = fails(cand)
            if c is not None:
                cur = c
                progress = True
                break
    cur['minimised'] = {
        'status': 'ok', 'rounds': rounds, 'candidates_tried': tried,
        'seconds': round(time.time() - t0, 1),
        'ops_before': len(obj.get('plan') or obj.get('pre') or []),
        'ops_after': len(cur.get('plan') or cur.get('pre') or []),
        'lexicons_before': len(obj['universe']['lexicons']),
        'lexicons_after': len(cur['universe']['lexicons']),
    }
    return cur
