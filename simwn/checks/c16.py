"""C16 — results are a function of database content and arguments only.

One PYTHONHASHSEED value = one process: the battery (simwn/battery.py) is executed in fresh
interpreters under several hash seeds, twice inside each process and once more after an
in-process restart; all canonical transcripts must be byte-identical and the database must
not be changed by the read-only battery."""
from __future__ import annotations

import json
import os
import random
import shutil
import subprocess
import sys

from .. import universe as U, plan as P, observe, compare, xmlout
from ..harness import subseed, plan_summary, enabled_findings
from ..run import Sim, Violation
from ..world import REPO

import wn

PROP = 'C16'
LEVEL = 'exploration'
RULE = ('one case = one seeded database (universe biased towards what makes set order matter: '
        'hypernym DAGs with several parents and several lowest common hypernyms, several frames '
        'per entry, many non-reciprocated relations, extensions, shared ILIs), built once; the '
        'battery (every public query, navigation, relation, closure/path, taxonomy, similarity, '
        'IC, Morphy, validate, lmf.dump and export 1.0/1.1/1.3 call over default-mode, '
        'single-lexicon and family sessions) runs in a FRESH interpreter per PYTHONHASHSEED in '
        'H (quick |H|=5: 0,1,2 + two drawn from the run seed; thorough |H|=16), twice per '
        'process and once after an in-process restart; the order in which the sessions are '
        'served alternates between passes and between processes (state leaking between '
        'read-only calls shows up as a difference). oracle: byte-identical canonical '
        'transcripts (list/tuple/dict order kept, sets sorted, floats by repr, files by '
        'bytes) across all processes and repetitions; table dump unchanged by the battery. one '
        'evaluation = one (database, hash seed, repetition) transcript. distinct = distinct '
        '(database digest, hash seed); non-trivial = database has a synset pair with >=2 common '
        'hypernyms')
ASSUMPTIONS = ['thread schedules are not varied: no property quantifies over them (DESIGN 6.3)']

BATTERY = os.path.join(os.path.dirname(os.path.dirname(os.path.abspath(__file__))), 'battery.py')


def first_diff(a, b, path=''):
    if type(a) is not type(b):
        return path, a, b
    if isinstance(a, dict):
        for k in a:
            if k not in b:
                return path + '/' + str(k), a[k], None
            d = first_diff(a[k], b[k], path + '/' + str(k))
            if d:
                return d
        for k in b:
            if k not in a:
                return path + '/' + str(k), None, b[k]
        return None
    if isinstance(a, list):
        for i, (x, y) in enumerate(zip(a, b)):
            d = first_diff(x, y, '%s[%d]' % (path, i))
            if d:
                return d
        if len(a) != len(b):
            return path + '[len]', len(a), len(b)
        return None
    if a != b:
        return path, a, b
    return None


CALLS = {'S:': ['word', 'synset', 'examples', 'counts', 'frames', 'relations', 'get_related',
                'relation_map', 'get_related_synsets', 'closure', 'metadata'],
         'SS:': ['senses', 'words', 'lemmas', 'definition', 'examples', 'relations',
                 'get_related', 'relation_map', 'hypernyms', 'hyponyms', 'closure(hypernym)',
                 'closure()', 'relation_paths', 'hypernym_paths', 'hypernym_paths(root)',
                 'min_depth', 'max_depth', 'max_depth(root)', 'translate', 'metadata'],
         'P:': ['shortest_path', 'common_hypernyms', 'lowest_common_hypernyms', 'path', 'wup',
                'lch', 'shortest_path(root)', 'common_hypernyms(root)',
                'lowest_common_hypernyms(root)', 'path(root)', 'wup(root)', 'lch(root)',
                'res', 'jcn', 'lin', 'information_content', 'synset_probability'],
         'W:': ['forms', 'senses', 'synsets', 'derived_words', 'metadata', 'tags',
                'pronunciations']}


def name_call(path):
    """/session/P:a|b[4] -> 'wup'"""
    import re
    m = re.match(r'^/([^/]*)/((?:SS|S|P|W):)[^\[]*\[(\d+)\]', path)
    if m and m.group(2) in CALLS and int(m.group(3)) < len(CALLS[m.group(2)]):
        return CALLS[m.group(2)][int(m.group(3))]
    m = re.match(r'^/(export|validate|dump):', path)
    if m:
        return m.group(1)
    m = re.match(r'^/[^/]*/([a-z0-9]+)', path)
    return m.group(1) if m else path.split('/')[1] if '/' in path else path


def run_one(seed, tier, explicit=None):
    rng = subseed(seed, 'universe')
    prof = U.Profile.draw(rng)
    prof.update(taxonomy=0.9, p_rel=0.8, p_cycle=rng.choice([0.0, 0.0, 0.3]),
                max_synsets=6, max_entries=rng.choice([4, 8]), n_ili_files=0,
                p_ili=rng.choice([0.3, 0.6]), ili_pool=12,
                p_requires=rng.choice([0.0, 0.5, 1.0]),
                n_bases=rng.choice([1, 2, 2]), p_second_version=0.0,
                p_rare_pos=rng.choice([0.0, 0.6]))
    mode = 'full'
    if explicit:
        u = explicit['universe']
        mode = explicit.get('mode', 'full')
    elif subseed(seed, 'big').random() < 0.06:
        # a BIG database with a light battery: sums over thousands of addends, exports of
        # > 1000 synsets, corpora of > 1000 distinct tokens
        u = U.generate_big(subseed(seed, 'universe-big'), n=1030)
        mode = 'light'
    else:
        u = U.generate(rng, prof)
    prng = subseed(seed, 'plan')
    sim = Sim(u, seed, PROP, [])
    violation = None
    evals = 0
    nt = 0
    H = ['0', '1', '2', str(prng.randint(3, 10 ** 6)), str(prng.randint(3, 10 ** 6))]
    if tier == 'thorough':
        H += [str(prng.randint(3, 10 ** 6)) for _ in range(11)]
    if mode == 'light':
        H = H[:3]
    order = ['fr'[i % 2] for i in range(len(H))]
    if explicit:
        H, order = explicit['hash_seeds'], explicit['orders']
    try:
        try:
            sim.oracles = set()
            for r in u['resources']:
                sim.do({'op': 'add', 'res': r['name']})
            sim.W.restart()
            src = sim.W.dbpath()
            ref = None
            ref_h = None
            for hi, h in enumerate(H):
                d = sim.W.workdir('node-%s' % h)
                shutil.copyfile(src, os.path.join(d, 'wn.db'))
                out = os.path.join(d, 'out.json')
                env = dict(os.environ)
                env['PYTHONHASHSEED'] = h
                env['PYTHONDONTWRITEBYTECODE'] = '1'
                carry = os.path.join(sim.W.workdir('carry'), 'synsets.pickle')
                p = subprocess.run([sys.executable, BATTERY, REPO, d, out, order[hi], mode,
                                    carry], env=env,
                                   capture_output=True, text=True, timeout=100)
                if p.returncode != 0:
                    raise Violation(PROP, 'battery-crashed', 'battery process failed under '
                                    'PYTHONHASHSEED=%s' % h,
                                    {'stderr': p.stderr[-1500:], 'hashseed': h})
                res = json.load(open(out, encoding='utf-8'))
                os.unlink(out)
                evals += 3
                if res.get('carried'):
                    raise Violation(PROP, 'carried-argument', 'a function called with synset '
                                    'objects that were pickled by another interpreter (other '
                                    'hash seed) answers differently than with freshly fetched '
                                    'objects of the same synsets: %s' % res['carried'][0]['call'],
                                    {'hashseed': h, 'hashseed_of_pickler': H[0],
                                     'diffs': res['carried']}, tags=[res['carried'][0]['call']])
                if res.get('stateful'):
                    raise Violation(PROP, 'failed-call-state', 'a read-only call that failed '
                                    '(the caller\'s lemmatizer/normalizer raised) changed what '
                                    'later calls on the same Wordnet object return',
                                    {'hashseed': h, 'diffs': res['stateful']})
                if res['dump_before'] != res['dump_after']:
                    raise Violation(PROP, 'read-only-writes', 'read-only battery changed the '
                                    'database', {'hashseed': h})
                for i, rep in enumerate(res['reps'][1:], 1):
                    d_ = first_diff(res['reps'][0], rep)
                    if d_:
                        raise Violation(
                            PROP, 'repetition', 'result differs between repeated calls in one '
                            'process (%s): %s' % ('after restart' if i == 2 else 'second pass',
                                                  name_call(d_[0])),
                            {'hashseed': h, 'path': d_[0], 'first': d_[1], 'again': d_[2]})
                if ref is None:
                    ref, ref_h = res['reps'][0], h
                    nt = 1 if any(k.startswith('P:') and isinstance(v[1], list) and len(v[1]) >= 2
                                  for s in ref.values() if isinstance(s, dict)
                                  for k, v in s.items()) else 0
                else:
                    d_ = first_diff(ref, res['reps'][0])
                    if d_:
                        raise Violation(
                            PROP, 'hashseed', 'result differs between fresh processes (PYTHONHASHSEED, order of earlier read-only calls): %s'
                            % name_call(d_[0]),
                            {'hashseed_a': ref_h, 'hashseed_b': h, 'path': d_[0],
                             'a': json.loads(json.dumps(d_[1]))
                             if not isinstance(d_[1], str) else d_[1][:600],
                             'b': json.loads(json.dumps(d_[2]))
                             if not isinstance(d_[2], str) else d_[2][:600]},
                            tags=[name_call(d_[0])])
        except Violation as v:
            violation = v.to_json()
        return {
            'seed': seed, 'violation': violation, 'digest': sim.W.event_digest(),
            'ops': evals, 'faults': {}, 'states': [], 'probes': {'hash-seeds': len(H)},
            'cells': [], 'evals': evals, 'nt': nt * len(H), 'known_hits': {},
            'nontrivial': bool(nt),
            'sample': {'hash_seeds': H, 'universe': plan_summary(u, [])['lexicons']},
            'replay': {'universe': u, 'mode': mode,
                       'hash_seeds': ([violation['detail']['hashseed_a'],
                                       violation['detail']['hashseed_b']]
                                      if violation and 'hashseed_a' in (violation.get('detail')
                                                                        or {}) else H),
                       'orders': ([order[H.index(violation['detail']['hashseed_a'])],
                                   order[H.index(violation['detail']['hashseed_b'])]]
                                  if violation and 'hashseed_a' in (violation.get('detail')
                                                                    or {}) else order)},
        }
    finally:
        sim.close()


def replay(obj):
    return run_one(obj['seed'], 'quick', explicit=obj)


def coverage_extra(results):
    return {'evaluations': max(1, sum(r.get('evals', 0) for r in results)),
            'distinct_nontrivial': sum(r.get('nt', 0) for r in results),
            'databases': len(results)}
