"""C16 — results are a function of database content and arguments only.

One PYTHONHASHSEED value = one process: the battery (simwn/battery.py) is executed in fresh
interpreters under several hash seeds, twice inside each process and once more after an
in-process restart; all canonical transcripts must be byte-identical and the database must
not be changed by the read-only battery."""
from __future__ import annotations

import json
import os
import random
import shutil
import subprocess
import sys

from .. import universe as U, plan as P, observe, compare, xmlout
from ..harness import subseed, plan_summary, enabled_findings
from ..run import Sim, Violation
from ..world import REPO

import wn

PROP = 'C16'
LEVEL = 'exploration'
RULE = ('one case = one seeded database (universe biased towards what makes set order matter: '
        'hypernym DAGs with several parents and several lowest common hypernyms, several frames '
        'per entry, many non-reciprocated relations, extensions, shared ILIs), built once; the '
        'battery (every public query, navigation, relation, closure/path, taxonomy, similarity, '
        'IC, Morphy, validate, lmf.dump and export 1.0/1.1/1.3 call over default-mode, '
        'single-lexicon and family sessions) runs in a FRESH interpreter per PYTHONHASHSEED in '
        'H (quick |H|=5: 0,1,2 + two drawn from the run seed; thorough |H|=16), twice per '
        'process and once after an in-process restart; the order in which the sessions are '
        'served alternates between passes and between processes (state leaking between '
        'read-only calls shows up as a difference). oracle: byte-identical canonical '
        'transcripts (list/tuple/dict order kept, sets sorted, floats by repr, files by '
        'bytes) across all processes and repetitions; table dump unchanged by the battery. one '
        'evaluation = one (database, hash seed, repetition) transcript, or one twin comparison '
        '(two Wordnet objects created back to back, read-only calls made through one of them '
        'only, then three seeded rounds of remove + re-add of a lexicon - 20% by another '
        'process - and identical transcripts required from both after each). distinct = distinct '
        '(database digest, hash seed); non-trivial = database has a synset pair with >=2 common '
        'hypernyms')
ASSUMPTIONS = ['thread schedules are not varied: no property quantifies over them (DESIGN 6.3)']

BATTERY = os.path.join(os.path.dirname(os.path.dirname(os.path.abspath(__file__))), 'battery.py')


def first_diff(a, b, path=''):
    if type(a) is not type(b):
        return path, a, b
    if isinstance(a, dict):
        for k in a:
            if k not in b:
                return path + '/' + str(k), a[k], None
            d = first_diff(a[k], b[k], path + '/' + str(k))
            if d:
                return d
        for k in b:
            if k not in a:
                return path + '/' + str(k), None, b[k]
        return None
    if isinstance(a, list):
        for i, (x, y) in enumerate(zip(a, b)):
            d = first_diff(x, y, '%s[%d]' % (path, i))
            if d:
                return d
        if len(a) != len(b):
            return path + '[len]', len(a), len(b)
        return None
    if a != b:
        return path, a, b
    return None


CALLS = {'S:': ['word', 'synset', 'examples', 'counts', 'frames', 'relations', 'get_related',
                'relation_map', 'get_related_synsets', 'closure', 'metadata'],
         'SS:': ['senses', 'words', 'lemmas', 'definition', 'examples', 'relations',
                 'get_related', 'relation_map', 'hypernyms', 'hyponyms', 'closure(hypernym)',
                 'closure()', 'relation_paths', 'hypernym_paths', 'hypernym_paths(root)',
                 'min_depth', 'max_depth', 'max_depth(root)', 'translate', 'metadata'],
         'P:': ['shortest_path', 'common_hypernyms', 'lowest_common_hypernyms', 'path', 'wup',
                'lch', 'shortest_path(root)', 'common_hypernyms(root)',
                'lowest_common_hypernyms(root)', 'path(root)', 'wup(root)', 'lch(root)',
                'res', 'jcn', 'lin', 'information_content', 'synset_probability'],
         'W:': ['forms', 'senses', 'synsets', 'derived_words', 'metadata', 'tags',
                'pronunciations']}


def name_call(path):
    """/session/P:a|b[4] -> 'wup'"""
    import re
    m = re.match(r'^/([^/]*)/((?:SS|S|P|W):)[^\[]*\[(\d+)\]', path)
    if m and m.group(2) in CALLS and int(m.group(3)) < len(CALLS[m.group(2)]):
        return CALLS[m.group(2)][int(m.group(3))]
    m = re.match(r'^/(export|validate|dump):', path)
    if m:
        return m.group(1)
    m = re.match(r'^/[^/]*/([a-z0-9]+)', path)
    return m.group(1) if m else path.split('/')[1] if '/' in path else path



# -- twins: read-only calls do not change the result of later calls ---------------------------
def _canon(x):
    if isinstance(x, (wn.Word, wn.Sense, wn.Synset)):
        return [type(x).__name__, x.id, getattr(x, '_ili', None) if x.id.startswith('*') else None,
                getattr(x, '_lexid', None)]
    if isinstance(x, wn.Lexicon):
        return ['Lexicon', x.specifier()]
    if isinstance(x, wn.Relation):
        return ['Relation', x.name, x.source_id, x.target_id, x._lexicon, x.subtype]
    if isinstance(x, float):
        return repr(x)
    if isinstance(x, (str, int, bool)) or x is None:
        return x
    if isinstance(x, dict):
        return [[_canon(k), _canon(v)] for k, v in x.items()]
    if isinstance(x, (set, frozenset)):
        return sorted((_canon(i) for i in x), key=json.dumps)
    if isinstance(x, (list, tuple)):
        return [_canon(i) for i in x]
    return repr(x)


def _call(fn, *a, **kw):
    import itertools
    import warnings
    try:
        with warnings.catch_warnings():
            warnings.simplefilter('ignore')
            r = fn(*a, **kw)
            if hasattr(r, '__next__'):
                r = list(itertools.islice(r, 200))
        return _canon(r)
    except RecursionError:
        return ['RecursionError']
    except Exception as e:                      # noqa: BLE001 - part of the transcript
        return ['exc', type(e).__name__]


def twin_transcript(w, specs, handles=None):
    """Every kind of read-only call on one Wordnet object (and on entity handles obtained
    from it earlier), in a fixed order."""
    import wn.similarity
    import wn.taxonomy
    t = {'lexicons': _call(w.lexicons), 'expanded': _call(w.expanded_lexicons)}
    try:
        words, senses, synsets = w.words()[:5], w.senses()[:5], w.synsets()[:7]
    except Exception as e:                      # noqa: BLE001
        return dict(t, enumeration=['exc', type(e).__name__])
    t['enum'] = _canon([words, senses, synsets])
    if handles:
        synsets = synsets + list(handles)
    for i, ss in enumerate(synsets):
        k = 'SS%d:%s' % (i, ss.id)
        t[k] = [_call(ss.get_related), _call(ss.relations), _call(ss.relation_map),
                _call(ss.closure, 'hypernym'), _call(ss.hypernym_paths),
                _call(ss.hypernym_paths, simulate_root=True),
                _call(ss.min_depth), _call(ss.max_depth), _call(ss.senses), _call(ss.words),
                _call(ss.lemmas), _call(ss.definition), _call(ss.lexicon),
                [_call(ss.translate, lexicon=sp) for sp in specs[:4]]]
    for i, se in enumerate(senses):
        t['S%d:%s' % (i, se.id)] = [_call(se.word), _call(se.synset), _call(se.get_related),
                                    _call(se.get_related_synsets), _call(se.relations),
                                    [_call(se.translate, lexicon=sp) for sp in specs[:2]]]
    for i, wd in enumerate(words):
        t['W%d:%s' % (i, wd.id)] = [_call(wd.senses), _call(wd.synsets), _call(wd.forms),
                                    _call(wd.derived_words),
                                    [_call(wd.translate, lexicon=sp) for sp in specs[:2]]]
    sel = synsets[:4] + (list(handles)[:2] if handles else [])
    for i, a in enumerate(sel):
        for j, b in enumerate(sel):
            if i >= j or a.pos != b.pos:
                continue
            t['P%d-%d' % (i, j)] = [
                _call(wn.taxonomy.shortest_path, a, b),
                _call(wn.taxonomy.shortest_path, a, b, simulate_root=True),
                _call(a.common_hypernyms, b), _call(a.lowest_common_hypernyms, b),
                _call(a.lowest_common_hypernyms, b, simulate_root=True),
                _call(wn.similarity.path, a, b), _call(wn.similarity.path, a, b, True),
                _call(wn.similarity.wup, a, b), _call(wn.similarity.wup, a, b, True),
                _call(wn.similarity.lch, a, b, 5), _call(wn.similarity.lch, a, b, 5, True)]
    return t


def twin_phase(sim, u, seed):
    """Two Wordnet objects created back to back with the same arguments differ in nothing
    but the read-only calls made through one of them; whatever happens to the database
    afterwards (lexicons and extensions added, removed, added again under other row numbers,
    by this or by another process) the two must answer every later call identically - C16:
    'read-only calls do not change the result of later calls'."""
    rng = subseed(seed, 'twins')
    twins = []
    n_cmp = 0

    def configs():
        inst = list(sim.m.installed)
        cfgs = [{}]
        for sp in inst:
            cfgs.append({'lexicon': sp})
            cfgs.append({'lexicon': sp, 'expand': '*'})
            fam = [sp] + sim.m.extensions_of(sp)
            if len(fam) > 1:
                cfgs.append({'lexicon': ' '.join(fam)})
        langs = sorted({u['lexicons'][sp]['language'] for sp in inst})
        if langs:
            cfgs.append({'lang': rng.choice(langs)})
        rng.shuffle(cfgs)
        return [{}] + [c for c in cfgs if c][:3]

    def make():
        specs = list(sim.m.installed)
        rng.shuffle(specs)
        for cfg in configs():
            try:
                import warnings
                with warnings.catch_warnings():
                    warnings.simplefilter('ignore')
                    a, b = wn.Wordnet(**cfg), wn.Wordnet(**cfg)
            except wn.Error:
                continue
            ha = a.synsets()[:3]
            twin_transcript(a, specs, ha)           # the read-only calls; results not kept
            hb = b.synsets()[:3]
            twins.append({'cfg': cfg, 'a': a, 'b': b, 'ha': ha, 'hb': hb, 'specs': specs,
                          'step': sim.step})
        del twins[:-8]

    def compare(op):
        nonlocal n_cmp
        for t in twins:
            ta = twin_transcript(t['a'], t['specs'], t['ha'])
            tb = twin_transcript(t['b'], t['specs'], t['hb'])
            n_cmp += 1
            d_ = first_diff(ta, tb)
            if d_:
                raise Violation(
                    PROP, 'twin', 'two Wordnet objects created with the same arguments at the '
                    'same moment answer differently after a later change of the database: the '
                    'read-only calls made earlier through one of them changed its later results',
                    {'cfg': t['cfg'], 'created_at_step': t['step'], 'after_op': op,
                     'path': d_[0], 'queried_before': d_[1], 'not_queried_before': d_[2]},
                    tags=['twin'])

    def do(op):
        sim.do(op)
        compare(op)
        make()

    res_of = {sp: r['name'] for r in u['resources'] for sp in r['lexicons']}
    make()
    for _round in range(3):
        inst = list(sim.m.installed)
        if not inst:
            break
        # prefer victims that do not hold the highest row number (their re-added copy gets a
        # new one) and extensions (a default-mode Wordnet sees them come and go)
        exts = [sp for sp in inst if sim.m.idx[sp].base is not None]
        x = rng.choice(exts) if exts and rng.random() < 0.5 else rng.choice(inst[:-1] or inst)
        gone = [x] + sim.m.extensions_of(x)
        do({'op': 'remove', 'spec': x})
        back = []
        for sp in [g for g in u['order'] if g in gone]:
            if res_of[sp] not in back:
                back.append(res_of[sp])
        if rng.random() < 0.3:
            back.reverse()
        for name in back:
            op = {'op': 'add', 'res': name}
            if rng.random() < 0.2:
                op = {'op': 'external', 'do': op}
            do(op)
    return n_cmp


def run_one(seed, tier, explicit=None):
    rng = subseed(seed, 'universe')
    prof = U.Profile.draw(rng)
    prof.update(taxonomy=0.9, p_rel=0.8, p_cycle=rng.choice([0.0, 0.0, 0.3]),
                max_synsets=6, max_entries=rng.choice([4, 8]), n_ili_files=0,
                p_ili=rng.choice([0.3, 0.6]), ili_pool=12,
                p_requires=rng.choice([0.0, 0.5, 1.0]),
                n_bases=rng.choice([1, 2, 2]), p_second_version=0.0,
                p_rare_pos=rng.choice([0.0, 0.6]))
    mode = 'full'
    if explicit:
        u = explicit['universe']
        mode = explicit.get('mode', 'full')
    elif subseed(seed, 'big').random() < 0.06:
        # a BIG database with a light battery: sums over thousands of addends, exports of
        # > 1000 synsets, corpora of > 1000 distinct tokens
        u = U.generate_big(subseed(seed, 'universe-big'), n=1030)
        mode = 'light'
    else:
        u = U.generate(rng, prof)
    prng = subseed(seed, 'plan')
    sim = Sim(u, seed, PROP, [])
    violation = None
    evals = 0
    nt = 0
    twin_cmp = 0
    H = ['0', '1', '2', str(prng.randint(3, 10 ** 6)), str(prng.randint(3, 10 ** 6))]
    if tier == 'thorough':
        H += [str(prng.randint(3, 10 ** 6)) for _ in range(11)]
    if mode == 'light':
        H = H[:3]
    order = ['fr'[i % 2] for i in range(len(H))]
    if explicit:
        H, order = explicit['hash_seeds'], explicit['orders']
    try:
        try:
            sim.oracles = set()
            for r in u['resources']:
                sim.do({'op': 'add', 'res': r['name']})
            sim.W.restart()
            src = sim.W.dbpath()
            ref = None
            ref_h = None
            for hi, h in enumerate(H):
                d = sim.W.workdir('node-%s' % h)
                shutil.copyfile(src, os.path.join(d, 'wn.db'))
                out = os.path.join(d, 'out.json')
                env = dict(os.environ)
                env['PYTHONHASHSEED'] = h
                env['PYTHONDONTWRITEBYTECODE'] = '1'
                carry = os.path.join(sim.W.workdir('carry'), 'synsets.pickle')
                p = subprocess.run([sys.executable, BATTERY, REPO, d, out, order[hi], mode,
                                    carry], env=env,
                                   capture_output=True, text=True, timeout=100)
                if p.returncode != 0:
                    raise Violation(PROP, 'battery-crashed', 'battery process failed under '
                                    'PYTHONHASHSEED=%s' % h,
                                    {'stderr': p.stderr[-1500:], 'hashseed': h})
                res = json.load(open(out, encoding='utf-8'))
                os.unlink(out)
                evals += 3
                if res.get('carried'):
                    raise Violation(PROP, 'carried-argument', 'a function called with synset '
                                    'objects that were pickled by another interpreter (other '
                                    'hash seed) answers differently than with freshly fetched '
                                    'objects of the same synsets: %s' % res['carried'][0]['call'],
                                    {'hashseed': h, 'hashseed_of_pickler': H[0],
                                     'diffs': res['carried']}, tags=[res['carried'][0]['call']])
                if res.get('stateful'):
                    raise Violation(PROP, 'failed-call-state', 'a read-only call that failed '
                                    '(the caller\'s lemmatizer/normalizer raised) changed what '
                                    'later calls on the same Wordnet object return',
                                    {'hashseed': h, 'diffs': res['stateful']})
                if res['dump_before'] != res['dump_after']:
                    raise Violation(PROP, 'read-only-writes', 'read-only battery changed the '
                                    'database', {'hashseed': h})
                for i, rep in enumerate(res['reps'][1:], 1):
                    d_ = first_diff(res['reps'][0], rep)
                    if d_:
                        raise Violation(
                            PROP, 'repetition', 'result differs between repeated calls in one '
                            'process (%s): %s' % ('after restart' if i == 2 else 'second pass',
                                                  name_call(d_[0])),
                            {'hashseed': h, 'path': d_[0], 'first': d_[1], 'again': d_[2]})
                if ref is None:
                    ref, ref_h = res['reps'][0], h
                    nt = 1 if any(k.startswith('P:') and isinstance(v[1], list) and len(v[1]) >= 2
                                  for s in ref.values() if isinstance(s, dict)
                                  for k, v in s.items()) else 0
                else:
                    d_ = first_diff(ref, res['reps'][0])
                    if d_:
                        raise Violation(
                            PROP, 'hashseed', 'result differs between fresh processes (PYTHONHASHSEED, order of earlier read-only calls): %s'
                            % name_call(d_[0]),
                            {'hashseed_a': ref_h, 'hashseed_b': h, 'path': d_[0],
                             'a': json.loads(json.dumps(d_[1]))
                             if not isinstance(d_[1], str) else d_[1][:600],
                             'b': json.loads(json.dumps(d_[2]))
                             if not isinstance(d_[2], str) else d_[2][:600]},
                            tags=[name_call(d_[0])])
            if mode == 'full':
                twin_cmp = twin_phase(sim, u, seed)
                evals += twin_cmp
        except Violation as v:
            violation = v.to_json()
        return {
            'seed': seed, 'violation': violation, 'digest': sim.W.event_digest(),
            'ops': evals, 'faults': {}, 'states': [],
            'probes': {'hash-seeds': len(H), 'twin-comparisons': twin_cmp},
            'cells': [], 'evals': evals, 'nt': nt * len(H), 'known_hits': {},
            'nontrivial': bool(nt),
            'sample': {'hash_seeds': H, 'universe': plan_summary(u, [])['lexicons']},
            'replay': {'universe': u, 'mode': mode,
                       'hash_seeds': ([violation['detail']['hashseed_a'],
                                       violation['detail']['hashseed_b']]
                                      if violation and 'hashseed_a' in (violation.get('detail')
                                                                        or {}) else H),
                       'orders': ([order[H.index(violation['detail']['hashseed_a'])],
                                   order[H.index(violation['detail']['hashseed_b'])]]
                                  if violation and 'hashseed_a' in (violation.get('detail')
                                                                    or {}) else order)},
        }
    finally:
        sim.close()


def replay(obj):
    return run_one(obj['seed'], 'quick', explicit=obj)


def coverage_extra(results):
    return {'evaluations': max(1, sum(r.get('evals', 0) for r in results)),
            'distinct_nontrivial': sum(r.get('nt', 0) for r in results),
            'databases': len(results)}
