"""C01 — the query API reports exactly what was added.

What the simulator owns here: the store the document is added into (prior history, other
lexicons sharing identifiers/ILIs/forms, reused rowids), the knobs of the write path
(BATCH_SIZE), the byte chunking of the read path (short reads), the supply route, the quoting
style, and a restart before reading back."""
from __future__ import annotations

from .. import universe as U, plan as P
from ..harness import subseed, run_plan, plan_summary
from ..model import Model

PROP = 'C01'
LEVEL = 'exploration'
ORACLES = ['installed', 'image']
RULE = ('one run = seeded universe (ids colliding across lexicons at a per-run rate, specials '
        'in every string, every optional attribute present/absent, extensions using the '
        'documented patterns) + 0-4 prior ops + add(R) by a random route under random '
        'BATCH_SIZE in {1,2,3,5,8,1000}, short reads, quoting style and lexical style (attribute '
        'order, CDATA sections, character references, comments containing fake <Lexicon> tags) '
        '+ optional restart; '
        'oracle after every op: complete field-exact model image of every installed extension '
        'family (lists compared whole, so extras fail). distinct = event digests; non-trivial '
        '= the final add installed >=1 lexicon with >=1 entry and >=1 synset into a non-empty '
        'store or with a non-default knob. 0.3% of the runs use a BIG universe (two lexicons of '
        '1030-2050 entries/synsets, default BATCH_SIZE) so that size thresholds are crossed, '
        'another 0.3% a FAT universe (130/260 members of one synset in shuffled order, forms of '
        'one entry, examples/counts of one sense, definitions/examples/relations of one synset)')
ASSUMPTIONS = ['the document space is sampled by the workload generator; simulation adds '
               'independence from history, neighbours, knobs, chunking, route and restart']


def build_big(seed):
    rng = subseed(seed, 'universe-big')
    u = U.generate_big(rng)
    plan = [{'op': 'add', 'res': 'r0', 'route': rng.choice(['xml', 'gz', 'mem']),
             'short_reads': rng.random() < 0.5},
            {'op': 'add', 'res': 'r1', 'route': rng.choice(['xml', 'xz'])}]
    if rng.random() < 0.5:
        plan.insert(1, {'op': 'restart'})
    return u, plan


def build_fat(seed):
    rng = subseed(seed, 'universe-fat')
    u = U.generate_fat(rng)
    plan = [{'op': 'add', 'res': 'r0', 'route': rng.choice(['xml', 'gz', 'mem']),
             'batch': rng.choice([1000, 1000, 8])}]
    if rng.random() < 0.5:
        plan.append({'op': 'restart'})
    return u, plan


def build(seed):
    if subseed(seed, 'big').random() < 0.003:
        return build_big(seed)     # default BATCH_SIZE, > 1000 rows per table
    if subseed(seed, 'fat').random() < 0.003:
        return build_fat(seed)     # 130/260 children of one parent
    rng = subseed(seed, 'universe')
    prof = U.Profile.draw(rng)
    prof['special'] = rng.choice([0.15, 0.5, 0.8])
    prof['p_no_synset_pos'] = rng.choice([0.0, 0.0, 0.2])
    prof['p_frame_no_id'] = rng.choice([0.0, 0.0, 0.5])
    u = U.generate(rng, prof)
    prng = subseed(seed, 'plan')
    m = Model(u)
    swarm = {'routes': True, 'batch': True, 'short_reads': True, 'style': True}
    plan = P.history(prng, u, prng.randint(0, 4), swarm, model=m)
    plan = [op for op in plan if op['op'] != 'checkpoint']
    cands = [r for r in u['resources'] if m.plan_add(r['lexicons'])] or u['resources']
    final = P.add_op(prng, prng.choice(cands), swarm)
    plan.append(final)
    if prng.random() < 0.4:
        plan.append({'op': 'restart'})
    # a second target: whatever is still addable (extensions after their base)
    m.add_resource(next(r for r in u['resources'] if r['name'] == final['res'])['lexicons'])
    more = [r for r in u['resources'] if m.plan_add(r['lexicons'])]
    if more and prng.random() < 0.6:
        plan.append(P.add_op(prng, prng.choice(more), swarm))
    return u, plan


def run_one(seed, tier):
    u, plan = build(seed)
    r = run_plan(PROP, seed, u, plan, ORACLES)
    r['nontrivial'] = r['probes'].get('add-installs', 0) >= 1 and r['n_installed_final'] >= 1
    r['sample'] = plan_summary(u, plan)
    r['replay'] = {'universe': u, 'plan': plan, 'oracles': ORACLES, 'end_checks': []}
    return r


def replay(obj):
    return run_plan(PROP, obj['seed'], obj['universe'], obj['plan'], obj['oracles'],
                    obj.get('end_checks', []))
