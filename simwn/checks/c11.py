"""C11 — see DESIGN.md section 4.C11 and simwn/sessions.py."""
from __future__ import annotations

from .. import universe as U, plan as P
from ..harness import subseed, run_plan, plan_summary
from ..sessions import SessionSim

PROP = 'C11'
LEVEL = 'exploration'
ORACLES = ['installed']
RULE = ('one run = seeded universe (relation digraphs with self-loops, cycles, parallel relations differing in type or dc:type, exact duplicates, non-standard types; extensions adding relations to base entities) + seeded history; after every op up to 4 sessions with scopes base only / base+extension / extension only / default mode (expand off); per session and entity: relations with name, source, target, defining lexicon and metadata (set), get_related/relations with and without a random type subset, relation_map keyed by (name, source, target, lexicon, dc:type), get_related_synsets, hypernyms/hyponyms/holonyms/meronyms, closure == model reachability, relation_paths simple and made of declared edges; termination by statement budget; 0.4% of the runs use a DEEP universe instead (one chain of 1100/1500 synsets and senses, longer than the recursion limit: closure and relation_paths from start, middle and end). distinct = event digests; non-trivial = at least one session was checked')
SESSION_ORACLES = tuple('relations'.split(','))


class S(SessionSim):
    session_oracles = SESSION_ORACLES
    configs_per_state = 4


def profile(rng):
    prof = U.Profile.draw(rng)
    prof['max_entries'] = min(prof['max_entries'], 4)
    prof['max_synsets'] = min(prof['max_synsets'], 4)
    prof['n_ili_files'] = min(prof['n_ili_files'], 1)
    prof['p_rel'] = rng.choice([0.5, 0.8])
    prof['p_cycle'] = rng.choice([0.0, 0.3, 0.6])
    prof['p_dup_rel'] = rng.choice([0.0, 0.2, 0.4])
    prof['n_ext'] = rng.choice([0, 1, 2])
    return prof


def build(seed):
    rng = subseed(seed, 'universe')
    prof = profile(rng)
    rerelease = subseed(seed, 'rerelease').random() < 0.25
    if rerelease:
        prof['p_rerelease'] = 0.7
    u = U.generate(rng, prof)
    prng = subseed(seed, 'plan')
    swarm = {'routes': prng.random() < 0.6, 'batch': prng.random() < 0.3, 'short_reads': False,
             'external': prng.random() < 0.1, 'style': prng.random() < 0.5,
             'rerelease': rerelease}
    plan = [op for op in P.history(prng, u, prng.randint(4, 9), swarm)
            if op['op'] != 'checkpoint']
    if prng.random() < 0.3:
        # a failed add/remove earlier in the history must not matter either
        plan = P.sprinkle_faults(prng, plan, 1)
    return u, plan


class DeepS(SessionSim):
    """A relation graph that is deep rather than wide: chains longer than the interpreter's
    recursion limit.  closure() and relation_paths() from the start, the middle and near the
    end of the chain yield exactly the rest of the chain."""
    session_oracles = ()

    def deep_chain(self):
        import itertools
        import wn
        n = self.u['profile']['deep']
        w = wn.Wordnet('deep:1', expand='')
        self.W.begin_op(budget=None)
        try:
            for kind, get, rel in (('s', w.synset, self.u['profile']['synset_relation']),
                                   ('k', w.sense, self.u['profile']['sense_relation'])):
                for start in (0, n // 2, n - 3):
                    x = get('deep-%s%d' % (kind, start))
                    rest = ['deep-%s%d' % (kind, j) for j in range(start + 1, n)]
                    for what, fn in (('closure', lambda: [t.id for t in x.closure(rel)]),
                                     ('relation_paths', lambda: [[t.id for t in p] for p in
                                                                 itertools.islice(
                                                                     x.relation_paths(rel), 3)])):
                        got, exc = self.call(fn)
                        SessionSim.evals += 1
                        if exc is not None:
                            raise self.v(what, '%s() raised %s on a chain of %d relations'
                                         % (what, type(exc).__name__, len(rest)),
                                         {'start': x.id, 'relation': rel, 'exc': repr(exc)[:300]})
                        want = rest if what == 'closure' else [rest]
                        if got != want:
                            raise self.v(what, '%s() on a chain of %d relations is not the '
                                         'rest of the chain' % (what, len(rest)),
                                         {'start': x.id, 'relation': rel,
                                          'observed_lengths': [len(got)] if what == 'closure'
                                          else [len(p) for p in got]})
            self.probe('deep-chain')
        finally:
            self.W.end_op()


def run_deep(seed):
    u = U.generate_deep(subseed(seed, 'universe-deep'))
    plan = [{'op': 'add', 'res': 'r0'}]
    SessionSim.evals = 0
    r = run_plan(PROP, seed, u, plan, [], ['deep_chain'], sim_cls=DeepS)
    r['evals'] = SessionSim.evals
    r['nontrivial'] = r['evals'] > 0
    r['sample'] = {'deep': u['profile']}
    r['replay'] = {'deep': True, 'seed': seed}
    return r


def run_one(seed, tier):
    if subseed(seed, 'deep').random() < 0.004:
        return run_deep(seed)
    u, plan = build(seed)
    SessionSim.evals = 0
    r = run_plan(PROP, seed, u, plan, ORACLES, sim_cls=S)
    r['evals'] = SessionSim.evals
    r['nontrivial'] = r['evals'] > 0 and r['n_installed_final'] >= 1
    r['sample'] = plan_summary(u, plan)
    r['replay'] = {'universe': u, 'plan': plan, 'oracles': ORACLES, 'end_checks': []}
    return r


def replay(obj):
    if obj.get('deep'):
        return run_deep(obj['seed'])
    return run_plan(PROP, obj['seed'], obj['universe'], obj['plan'], ORACLES, sim_cls=S)


def coverage_extra(results):
    return {'session_evaluations': sum(r.get('evals', 0) for r in results)}
