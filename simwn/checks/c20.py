"""C20 — invalid WN-LMF is rejected as a whole; scans agree with full loads.

Fault enumeration on the *bytes that are read*: for each sampled valid file, every truncation
offset (torn / short write of the file being added), dropped and duplicated tags (lost /
repeated writes), header variants, truncated gzip/xz/tar containers, and the structural
single-fault mutations the property names, each fed to is_lmf / scan_lexicons / load / add
against a non-empty database."""
from __future__ import annotations

import gzip
import io
import lzma
import os
import re
import tarfile
import xml.etree.ElementTree as ET

from .. import universe as U, observe, compare, xmlout
from ..harness import subseed, plan_summary, enabled_findings
from ..run import Sim, Violation
from ..world import SimBudget, SimHandler
from ..model import Model, spec_of
from .c06 import Enum

import wn
import wn.lmf
import wn._db

PROP = 'C20'
LEVEL = 'fault_enumeration'
F_SCAN = 'C20-scan-lexicons-raw-attribute-text'
F_NOLEX = 'C20-add-skips-validation-when-nothing-to-add'
LEXTAG = re.compile(rb'<(Lexicon|LexiconExtension)\b[^>]*>')
RULE = ('one case = one sampled valid WN-LMF file (versions 1.0-1.3, both quoting styles, '
        'escaped characters in id/version/label; half of them with lexical style variations: '
        'shuffled attributes, mixed quoting, CDATA, character references, comments holding '
        'fake <Lexicon> tags) installed next to an already populated '
        'database. ENUMERATED per case: truncation at every byte offset (every offset near '
        'both ends, strided in the middle of files > 4 kB), each tag dropped and each tag '
        'duplicated (first 60 tags), 12 header variants, gzip/xz/tar containers truncated at 8 '
        'offsets, and structural single faults: each identifying attribute (id, version, '
        'synset, target, relType) removed per element kind, each element kind renamed to an '
        'unknown name, >=1.1 elements in a 1.0 document, single-valued children duplicated. '
        'one evaluation = one mutant through is_lmf + scan_lexicons + load + add. oracle: '
        'must-reject (independent judge: xml.etree cannot parse / container cannot be read / '
        'named structural fault) => load raises, add raises, raw table dump unchanged; always: '
        'add raised => dump unchanged; is_lmf == header accepted by load; load ok => '
        'scan_lexicons agrees on ids, versions, labels, bases, order; dump() output accepted. '
        'distinct = distinct mutant bytes; non-trivial = mutant differs from the valid file '
        'inside the LexicalResource element')
ASSUMPTIONS = ['well-formedness judge is xml.etree (expat, same engine as wn but called '
               'through another API and without wn\'s handlers)']

HEADER_ERR = re.compile(r'invalid or missing (XML declaration|DOCTYPE declaration)')
TAG_RE = re.compile(rb'<[A-Za-z][^<>]*?>')


def judge_wellformed(data: bytes) -> bool:
    try:
        ET.fromstring(data)
        return True
    except ET.ParseError:
        return False
    except Exception:
        return False


def header_variants(data: bytes):
    lines = data.split(b'\n')
    decl, doctype, rest = lines[0], lines[1], b'\n'.join(lines[2:])
    out = []
    out.append(('no-xmldecl', doctype + b'\n' + rest, True))
    out.append(('no-doctype', decl + b'\n' + rest, True))
    out.append(('doctype-unsupported-version',
                decl + b'\n' + re.sub(rb'WN-LMF-1\.\d', b'WN-LMF-1.4', doctype) + b'\n' + rest,
                True))
    out.append(('doctype-0.9', decl + b'\n' + re.sub(rb'WN-LMF-1\.\d', b'WN-LMF-0.9', doctype)
                + b'\n' + rest, True))
    out.append(('xmldecl-single-quoted', decl.replace(b'"', b"'") + b'\n' + doctype + b'\n'
                + rest, False))
    out.append(('doctype-single-quoted', decl + b'\n' + doctype.replace(b'"', b"'") + b'\n'
                + rest, False))
    out.append(('xmldecl-latin1', decl.replace(b'UTF-8', b'ISO-8859-1') + b'\n' + doctype
                + b'\n' + rest, None))
    out.append(('leading-blank-line', b'\n' + data, None))
    # saved as "UTF-8 with signature": whether that is accepted is not stated, but is_lmf(),
    # load() and add() must agree about it
    out.append(('utf8-bom', b'\xef\xbb\xbf' + data, None))
    out.append(('leading-space', b' ' + data, None))
    out.append(('xmldecl-standalone', decl.replace(b'?>', b' standalone="yes"?>') + b'\n'
                + doctype + b'\n' + rest, None))
    out.append(('xmldecl-lowercase-encoding', decl.replace(b'UTF-8', b'utf-8') + b'\n' + doctype
                + b'\n' + rest, None))
    out.append(('crlf', data.replace(b'\n', b'\r\n'), False))
    out.append(('doctype-other-root', decl + b'\n' + doctype.replace(b'LexicalResource', b'Foo')
                + b'\n' + rest, True))
    out.append(('decl-and-doctype-swapped', doctype + b'\n' + decl + b'\n' + rest, True))
    out.append(('empty-file', b'', True))
    return out


def structural_mutants(text: str, version: str):
    """(name, mutated text) — each a single named structural fault; all must be rejected."""
    out = []
    spans = [(m.start(), m.end()) for m in re.finditer(r'<!--.*?-->|<!\[CDATA\[.*?\]\]>',
                                                       text, re.S)]

    def live(m):
        return not any(a <= m.start() < b for a, b in spans)

    def each_tag(name, limit=2):
        return [m for m in re.finditer(r'<%s(?=[\s/>])[^<>]*?/?>' % name, text)
                if live(m)][:limit]

    ident = {
        'Lexicon': ['id', 'version'], 'LexiconExtension': ['id', 'version'],
        'Requires': ['id', 'version'], 'Extends': ['id', 'version'],
        'LexicalEntry': ['id'], 'ExternalLexicalEntry': ['id'],
        'Sense': ['id', 'synset'], 'ExternalSense': ['id'],
        'Synset': ['id'], 'ExternalSynset': ['id'], 'ExternalForm': ['id'],
        'SenseRelation': ['target', 'relType'], 'SynsetRelation': ['target', 'relType'],
        # what a form / a frame IS: its written form, its frame string
        'Lemma': ['writtenForm'], 'Form': ['writtenForm'],
        'SyntacticBehaviour': ['subcategorizationFrame'],
    }
    for elem, attrs in ident.items():
        for m in each_tag(elem, 8 if elem == 'SyntacticBehaviour' else 2):
            for a in attrs:
                tag = m.group(0)
                # the attribute itself, not text inside another attribute's value
                new = tag
                for am in re.finditer(r'''\s+([^\s=<>/'"]+)\s*=\s*("[^"]*"|'[^']*')''', tag):
                    if am.group(1) == a:
                        new = tag[:am.start()] + tag[am.end():]
                        break
                if new != tag:
                    out.append(('no-%s@%s' % (elem, a),
                                text[:m.start()] + new + text[m.end():]))
    for elem in ['Lexicon', 'LexicalEntry', 'Lemma', 'Form', 'Sense', 'Synset', 'Definition',
                 'Example', 'SynsetRelation', 'SenseRelation', 'Tag', 'Count',
                 'SyntacticBehaviour', 'ILIDefinition', 'Pronunciation', 'Requires',
                 'LexiconExtension', 'ExternalSynset']:
        ms = each_tag(elem, 1)
        if not ms:
            continue
        m = ms[0]
        tag = m.group(0)
        if tag.endswith('/>'):
            out.append(('rename-' + elem, text[:m.start()] + tag.replace('<' + elem, '<' + elem
                                                                         + 'X', 1)
                        + text[m.end():]))
        else:
            # rename both the start tag and its matching end tag (first following)
            end = text.find('</%s>' % elem, m.end())
            if end < 0:
                continue
            out.append(('rename-' + elem,
                        text[:m.start()] + tag.replace('<' + elem, '<' + elem + 'X', 1)
                        + text[m.end():end] + '</%sX>' % elem + text[end + len(elem) + 3:]))
    # unknown child elements inside text-carrying elements and elsewhere
    for elem in ['Definition', 'Example', 'ILIDefinition', 'Tag', 'Pronunciation', 'Count']:
        ms = [m for m in re.finditer(r'<%s(?=[\s>])[^<>]*?>' % elem, text) if live(m)][:1]
        for m in ms:
            for child in ('<i>x</i>', '<sub>2</sub>', '<br/>', '<em>y</em>', '<b/>'):
                out.append(('unknown-child-in-%s:%s' % (elem, child[1:3].strip('>/')),
                            text[:m.end()] + child + text[m.end():]))
    for elem in ['Lexicon', 'LexicalEntry', 'Sense', 'Synset']:
        ms = [m for m in re.finditer(r'<%s(?=[\s>])[^<>/]*?>' % elem, text) if live(m)][:1]
        for m in ms:
            out.append(('unknown-child-in-%s' % elem,
                        text[:m.end()] + '<Note>n</Note>' + text[m.end():]))
    # single-valued children duplicated
    for elem in ['Lemma', 'ILIDefinition', 'Extends', 'ExternalLemma']:
        m = next((x for x in re.finditer(r'[ \t]*<%s(?=[\s/>])[^<>]*?/>\n' % elem, text)
                  if live(x)), None)
        if m is None:
            m = next((x for x in re.finditer(r'[ \t]*<%s(?=[\s/>])[^<>]*?>.*?</%s>\n'
                                             % (elem, elem), text, re.S) if live(x)), None)
        if m is not None:
            out.append(('dup-' + elem, text[:m.end()] + m.group(0) + text[m.end():]))
    # >= 1.1 elements in a 1.0 document
    if version == '1.0':
        m = next((x for x in re.finditer(r'(<Lemma[^<>]*?)/>', text) if live(x)), None)
        if m:
            out.append(('1.1-elem-in-1.0:Pronunciation',
                        text[:m.start()] + m.group(1) + '><Pronunciation>x</Pronunciation></Lemma>'
                        + text[m.end():]))
        m = next((x for x in re.finditer(r'<Lexicon(?=[\s>])[^<>]*?>\n', text) if live(x)), None)
        if m:
            out.append(('1.1-elem-in-1.0:Requires',
                        text[:m.end()] + '    <Requires id="q" version="1"/>\n' + text[m.end():]))
            out.append(('1.1-elem-in-1.0:ExternalSynset',
                        text[:m.end()] + '    <ExternalSynset id="q"/>\n' + text[m.end():]))
        m = re.search(r'  </Lexicon>\n', text)
        if m:
            out.append(('1.1-elem-in-1.0:LexiconExtension',
                        text[:m.end()] + '  <LexiconExtension id="q" label="q" language="en" '
                        'email="e" license="l" version="1"><Extends id="a" version="1"/>'
                        '</LexiconExtension>\n' + text[m.end():]))
    return out


def truncation_offsets(n):
    if n <= 4096:
        return list(range(0, n))
    edge = 400
    step = max(2, (n - 2 * edge) // 3000)
    return sorted(set(list(range(0, edge)) + list(range(edge, n - edge, step))
                      + list(range(n - edge, n))))


def container_mutants(data: bytes, workdir):
    out = []
    gz = gzip.compress(data, mtime=0)
    xz = lzma.compress(data)
    bio = io.BytesIO()
    with tarfile.open(fileobj=bio, mode='w') as t:
        ti = tarfile.TarInfo('r.xml')
        ti.size = len(data)
        t.addfile(ti, io.BytesIO(data))
    tar = bio.getvalue()
    for kind, blob in (('gz', gz), ('xz', xz), ('tar', tar)):
        n = len(blob)
        offs = sorted({1, 2, 10, n // 4, n // 2, (3 * n) // 4, n - 8, n - 1})
        for off in offs:
            if 0 < off < n:
                out.append(('%s-truncated@%d/%d' % (kind, off, n), kind, blob[:off]))
    return out


def container_readable(kind, blob, data):
    try:
        if kind == 'gz':
            return gzip.decompress(blob) == data
        if kind == 'xz':
            return lzma.decompress(blob) == data
        with tarfile.open(fileobj=io.BytesIO(blob)) as t:
            ms = t.getmembers()
            return len(ms) == 1 and t.extractfile(ms[0]).read() == data
    except Exception:
        return False


class Case(Enum):
    pass


def run_bigfile(seed):
    """A file of more than 2 MiB cut at sizes that interrupted block-wise copies leave behind
    (exact multiples of 64 KiB / 1 MiB, where readers that work in blocks see a last block
    that is full): every such prefix must be rejected by load() and add(), and the complete
    file accepted."""
    rng = subseed(seed, 'universe-bigfile')
    u = U.generate_big(rng, n=6100)
    sim = Case(u, seed, PROP, [])
    violation = None
    evals = 0
    try:
        try:
            data = xmlout.resource_xml(u, u['resources'][0])
            wd = sim.W.workdir('bigfile')
            wn._db.connect()
            sim.W.restart()
            pre = observe.raw_dump(sim.W.dbpath())
            cuts = [c for c in (65536, 1048576, 2097152, 1048576 + 65536) if c < len(data)]
            for cut in cuts:
                path = os.path.join(wd, 'cut-%d.xml' % cut)
                with open(path, 'wb') as f:
                    f.write(data[:cut])
                detail = {'mutant': 'truncate@%d' % cut, 'file_bytes': len(data)}
                sim.W.begin_op(budget=None)
                try:
                    _, lexc = sim.call(wn.lmf.load, path, progress_handler=None)
                    _, aexc = sim.call(wn.add, path, progress_handler=None)
                finally:
                    sim.W.end_op()
                evals += 1
                if lexc is None:
                    raise Violation(PROP, 'load-accepts', 'load() accepted a file truncated at '
                                    'a block boundary (%d bytes)' % cut, detail)
                if aexc is None:
                    raise Violation(PROP, 'add-accepts', 'add() accepted a file truncated at a '
                                    'block boundary (%d bytes)' % cut, detail)
                sim.W.restart()
                if observe.raw_dump(sim.W.dbpath()) != pre:
                    raise Violation(PROP, 'db-changed', 'rejected file changed the database',
                                    detail)
            path = os.path.join(wd, 'whole.xml')
            with open(path, 'wb') as f:
                f.write(data)
            _, lexc = sim.call(wn.lmf.load, path, progress_handler=None)
            if lexc is not None:
                raise Violation(PROP, 'valid-rejected', 'load() rejected a valid file',
                                {'exc': repr(lexc), 'file_bytes': len(data)})
        except Violation as v:
            violation = v.to_json()
        return {'seed': seed, 'violation': violation, 'digest': sim.W.event_digest(),
                'ops': evals, 'faults': {'truncate-at-block-boundary': evals}, 'states': [],
                'probes': {'bigfile': 1}, 'cells': [], 'evals': evals, 'nt': evals,
                'known_hits': {}, 'nontrivial': True, 'sample': {'bigfile': True},
                'replay': {'bigfile': True}}
    finally:
        sim.close()


def run_one(seed, tier, explicit=None):
    if (explicit or {}).get('bigfile') or (not explicit and seed % 48 == 7):
        return run_bigfile(seed)        # one of the 48 quick runs, ten of the thorough ones
    rng = subseed(seed, 'universe')
    prof = U.Profile.draw(rng)
    prof['max_entries'] = min(prof['max_entries'], 4)
    prof['max_synsets'] = min(prof['max_synsets'], 4)
    prof['special'] = rng.choice([0.3, 0.6, 0.9])
    prof['p_attr_special'] = 0.6
    prof['p_ext_entry_frames'] = 0.5
    prof['p_long'] = 0.0          # (every byte offset of the file is a truncation point)
    u = explicit['universe'] if explicit else U.generate(rng, prof)
    prng = subseed(seed, 'plan')
    sim = Case(u, seed, PROP, ['installed'])
    pre_added = []
    stats = {'evals': 0, 'kinds': {}, 'distinct': set(), 'must_reject': 0, 'accepted': 0}
    violation = None
    compare.KNOWN_HITS.clear()
    compare.ENABLED_FINDINGS.clear()
    compare.ENABLED_FINDINGS.update(enabled_findings())
    tgt = None
    quote, indent, style = '"', True, None
    try:
        try:
            # a populated database that must not change
            order = list(u['resources'])
            tgt = prng.choice(order)
            if explicit:
                tgt = sim.res[explicit['target']]
            for r in order:
                if r is tgt:
                    continue
                if explicit:
                    go = r['name'] in explicit['pre_added']
                else:
                    go = bool(sim.m.plan_add(r['lexicons'])) and prng.random() < 0.7
                if go:
                    pre_added.append(r['name'])
                    sim.do({'op': 'add', 'res': r['name']})
            sim.step += 1
            wn._db.connect()
            sim.save()
            pre = observe.raw_dump(sim.W.dbpath())
            sim.W.short_reads = prng.random() < 0.5      # chunk boundaries anywhere
            quote = prng.choice(['"', "'"])
            indent = prng.random() < 0.8
            style = None
            if prng.random() < 0.6:
                style = {'seed': prng.randint(0, 10 ** 6), 'shuffle_attrs': prng.random() < 0.5,
                         'cdata': prng.random() < 0.4, 'comments': prng.random() < 0.5,
                         'charrefs': prng.random() < 0.6, 'mixed_quotes': prng.random() < 0.3,
                         'loose_attrs': prng.random() < 0.3}
            if explicit:
                quote, indent, style = explicit['quote'], explicit['indent'], \
                    explicit.get('style')
            data = xmlout.resource_xml(u, tgt, quote=quote, indent=indent, style=style)
            text = data.decode('utf-8')
            wd = sim.W.workdir('c20')
            counter = [0]

            def feed(name, blob, must_reject, kind='xml', inner=True, must_accept=False):
                """One mutant through is_lmf / scan_lexicons / load / add."""
                counter[0] += 1
                stats['evals'] += 1
                k = name.split('@')[0].split(':')[0]
                stats['kinds'][k] = stats['kinds'].get(k, 0) + 1
                stats['distinct'].add(hash(blob))
                ext = {'xml': '.xml', 'gz': '.xml.gz', 'xz': '.xml.xz', 'tar': '.tar'}[kind]
                path = os.path.join(wd, 'm%s' % ext)
                with open(path, 'wb') as f:
                    f.write(blob)
                import base64
                detail = {'mutant': name, 'file': tgt['name'], 'lmf_version': tgt['lmf_version'],
                          'must_reject': must_reject,
                          'mutant_bytes_b64': base64.b64encode(blob).decode('ascii'),
                          'container': kind,
                          'installed_before': list(sim.snap_model.installed)}
                sim.W.begin_op(budget=sim.budget)
                try:
                    loaded = None
                    header_ok = None
                    if kind == 'xml':
                        is_lmf, exc0 = sim.call(wn.lmf.is_lmf, path)
                        if exc0 is not None:
                            raise Violation(PROP, 'is_lmf-raises', 'is_lmf() raised %s'
                                            % type(exc0).__name__, dict(detail, exc=repr(exc0)))
                        loaded, lexc = sim.call(wn.lmf.load, path, progress_handler=None)
                        header_ok = not (isinstance(lexc, wn.lmf.LMFError)
                                         and HEADER_ERR.search(str(lexc)))
                        if is_lmf != header_ok:
                            raise Violation(PROP, 'is_lmf-vs-load', 'is_lmf() is %s but load() '
                                            '%s the header' % (is_lmf, 'accepts' if header_ok
                                                               else 'rejects'),
                                            dict(detail, load_exc=repr(lexc)))
                        if must_reject and lexc is None:
                            raise Violation(PROP, 'load-accepts', 'load() accepted an invalid '
                                            'file (%s)' % k, detail)
                        if must_accept and lexc is not None:
                            raise Violation(PROP, 'valid-rejected', 'load() rejected a file '
                                            'that %s' % ('dump() produced' if k.startswith('dump')
                                                         else 'is valid'),
                                            dict(detail, exc=repr(lexc)))
                        if lexc is None:
                            self_scan(path, loaded, detail)
                    _, aexc = sim.call(wn.add, path, progress_handler=SimHandler)
                finally:
                    sim.W.end_op()
                sim.W.log(mutant=name, must_reject=must_reject,
                          add=type(aexc).__name__ if aexc else None)
                conn = wn._db.pool.get(wn.config.database_path)
                if conn is not None and conn.in_transaction:
                    raise Violation(PROP, 'open-transaction', 'pooled connection left inside a '
                                    'transaction after add of an invalid file', detail)
                if must_reject:
                    stats['must_reject'] += 1
                    if aexc is None:
                        nolex = kind == 'xml' and nothing_to_add(sim, path)
                        if nolex and F_NOLEX in compare.ENABLED_FINDINGS:
                            compare.note_known(F_NOLEX)
                            if observe.raw_dump(sim.W.dbpath()) != pre:
                                raise Violation(PROP, 'db-changed', 'file without any lexicon '
                                                'changed the database', detail)
                            return
                        raise Violation(PROP, 'add-accepts', 'add() accepted an invalid file '
                                        '(%s)' % k, detail,
                                        tags=['nothing-to-add'] if nolex else [])
                if must_accept and aexc is not None:
                    raise Violation(PROP, 'valid-rejected', 'add() rejected a file that %s'
                                    % ('dump() produced' if k.startswith('dump') else 'is valid'),
                                    dict(detail, exc=repr(aexc)))
                if aexc is not None:
                    now = observe.raw_dump(sim.W.dbpath())
                    if now != pre:
                        tables = [t for t in now if now[t] != pre.get(t)]
                        raise Violation(PROP, 'db-changed', 'rejected file changed the database '
                                        '(%s)' % k, dict(detail, tables=tables, exc=repr(aexc)))
                else:
                    stats['accepted'] += 1
                    sim.load()       # accepted mutant: put the pre-state back

            def self_scan(path, loaded, detail):
                scan, sexc = sim.call(wn.lmf.scan_lexicons, path)
                want = [(lx['id'], lx['version'], lx.get('label'),
                         (lx['extends']['id'], lx['extends']['version'])
                         if lx.get('extends') else None) for lx in loaded['lexicons']]
                if sexc is not None:
                    raise Violation(PROP, 'scan-raises', 'scan_lexicons() raised %s on a file '
                                    'load() accepts' % type(sexc).__name__,
                                    dict(detail, exc=repr(sexc), load=want))
                got = [(i['id'], i['version'], i.get('label'),
                        (i['extends']['id'], i['extends']['version'])
                        if i.get('extends') else None) for i in scan]
                if got != want:
                    if (F_SCAN in compare.ENABLED_FINDINGS and len(got) == len(want)
                            and all(raw_variant(g, w) for g, w in zip(got, want))):
                        compare.note_known(F_SCAN)
                        return
                    raise Violation(PROP, 'scan-vs-load', 'scan_lexicons() disagrees with '
                                    'load()', dict(detail, scan=got, load=want))

            if explicit and explicit.get('mutant'):
                import base64 as _b64
                mu = explicit['mutant']
                feed(mu['name'], _b64.b64decode(mu['bytes_b64']), mu['must_reject'],
                     kind=mu.get('container', 'xml'))
                raise StopIteration
            # 0. the valid file itself (both as written and after a dump round trip)
            feed('valid', data, False, must_accept=True)
            # the same document with ">" standing for itself inside attribute values, white
            # space around "=" and shuffled attributes (all of it plain XML)
            loose = dict(style or {}, seed=(style or {}).get('seed', 1) + 1, raw_gt=True,
                         loose_attrs=True, shuffle_attrs=True, mixed_quotes=True)
            feed('valid-loose', xmlout.resource_xml(u, tgt, quote=quote, indent=indent,
                                                    style=loose), False, must_accept=True)
            res, exc = sim.call(wn.lmf.load, os.path.join(wd, 'm.xml'), progress_handler=None)
            if exc is not None:
                raise Violation(PROP, 'valid-rejected', 'load() rejected a valid file',
                                {'exc': repr(exc)})
            for v in ['1.0', '1.1', '1.2', '1.3']:
                if v == '1.0' and any(lx.get('extends') for lx in res['lexicons']):
                    continue
                dumped = os.path.join(wd, 'dumped-%s.xml' % v)
                r2 = dict(res, lmf_version=v)
                _, exc = sim.call(wn.lmf.dump, r2, dumped)
                if exc is not None:
                    raise Violation(PROP, 'dump-raises', 'dump() raised %s' % type(exc).__name__,
                                    {'exc': repr(exc), 'version': v})
                feed('dump-%s' % v, open(dumped, 'rb').read(), False, must_accept=True)
            # 1. truncation at every offset
            for off in truncation_offsets(len(data)):
                blob = data[:off]
                feed('truncate@%d' % off, blob, not judge_wellformed(blob))
            # 2. dropped / duplicated tags
            tags = list(TAG_RE.finditer(data))
            pick = tags if len(tags) <= 60 else [tags[i] for i in
                                                 sorted(prng.sample(range(len(tags)), 60))]
            for m in pick:
                blob = data[:m.start()] + data[m.end():]
                feed('drop-tag@%d' % m.start(), blob, not judge_wellformed(blob))
                blob = data[:m.end()] + m.group(0) + data[m.end():]
                feed('dup-tag@%d' % m.start(), blob, not judge_wellformed(blob) or None)
            # 3. header variants
            for name, blob, must in header_variants(data):
                feed('header:' + name, blob, bool(must))
            # 4. structural single faults
            for name, mtext in structural_mutants(text, tgt['lmf_version']):
                feed('struct:' + name, mtext.encode('utf-8'), True)
            # 5. truncated containers
            for name, kind, blob in container_mutants(data, wd):
                full = {'gz': gzip.compress(data, mtime=0), 'xz': lzma.compress(data)}.get(kind)
                feed('container:' + name, blob, not container_readable(kind, blob, data),
                     kind=kind)
        except StopIteration:
            pass
        except Violation as v:
            violation = v.to_json()
        except SimBudget as b:
            violation = Violation(PROP, 'termination', 'statement budget exhausted',
                                  {'msg': str(b)}).to_json()
        mutant = None
        if violation and (violation.get('detail') or {}).get('mutant_bytes_b64'):
            dt = violation['detail']
            mutant = {'name': dt['mutant'], 'bytes_b64': dt['mutant_bytes_b64'],
                      'must_reject': dt['must_reject'], 'container': dt.get('container', 'xml')}
        return {
            'seed': seed, 'violation': violation, 'digest': sim.W.event_digest(),
            'ops': stats['evals'], 'faults': stats['kinds'], 'states': [],
            'probes': {'must_reject': stats['must_reject'], 'accepted_mutants': stats['accepted'],
                       'cases': 1},
            'cells': [], 'evals': stats['evals'], 'nt': len(stats['distinct']),
            'known_hits': dict(compare.KNOWN_HITS), 'nontrivial': stats['evals'] > 10,
            'sample': {'file': tgt and tgt['name'], 'lexicons': tgt and tgt['lexicons'],
                       'lmf_version': tgt and tgt['lmf_version'], 'mutant_kinds': stats['kinds']},
            'replay': {'universe': u, 'target': tgt and tgt['name'], 'pre_added': pre_added,
                       'quote': quote if tgt else '"', 'indent': indent if tgt else True,
                       'style': style, 'mutant': mutant},
        }
    finally:
        sim.close()


def nothing_to_add(sim, path):
    """True when the pre-scan of *path* finds no lexicon that add() would try to add: none at
    all, or only lexicons already installed / extensions whose base is not installed."""
    try:
        infos = wn.lmf.scan_lexicons(path)
    except Exception:
        return False
    inst = set(sim.snap_model.installed)
    skip = {}
    for i in infos:        # add() keys its skip decisions by specifier; the last one wins
        sp = '%s:%s' % (i['id'], i['version'])
        skip[sp] = (sp in inst or bool(
            i.get('extends') and '%s:%s' % (i['extends']['id'], i['extends']['version'])
            not in inst))
    return all(skip.values())


def raw_variant(got, want):
    """True when scan_lexicons' tuple is the known raw-text variant of load's: label still
    XML-escaped, or dropped (None) because it contains a quote character."""
    import html
    for g, w in zip(got[:3], want[:3]):
        if g == w:
            continue
        if g is None and w is not None and ('"' in w or "'" in w):
            continue
        if g is not None and w is not None and html.unescape(g) == w:
            continue
        return False
    return got[3] == want[3]


def replay(obj):
    return run_one(obj['seed'], 'quick', explicit=obj)


def coverage_extra(results):
    return {'evaluations': max(1, sum(r.get('evals', 0) for r in results)),
            'distinct_nontrivial': sum(r.get('nt', 0) for r in results),
            'cases_enumerated': len(results),
            'exhaustive_over': 'truncation offsets (strided in the middle of files > 4 kB), '
                               'tags dropped/duplicated (<=60), header variants, structural '
                               'faults, container truncations of each sampled file'}
