"""C10 — see DESIGN.md section 4.C10 and simwn/sessions.py."""
from __future__ import annotations

from .. import universe as U, plan as P
from ..harness import subseed, run_plan, plan_summary
from ..sessions import SessionSim

PROP = 'C10'
LEVEL = 'exploration'
ORACLES = ['installed']
RULE = ("one run = seeded universe (colliding ids across lexicons/versions at a per-run rate, extensions whose senses attach to base entries/synsets, several synsets per ILI, absent/proposed ILIs) + seeded history; after every op up to 4 sessions; per session: model image of word/sense/synset navigation fields (Sense.word/synset by id AND lexicon), inverse navigation, Word.synsets/Synset.words/lemmas as images of the sense lists, ==/hash laws over all objects reached by different routes, Synset.translate against the model's ILI table for 3 target selections, symmetry, Sense/Word.translate as images; entity objects carried into an interpreter with another hash seed (0.4% of the sessions); 0.2% of the runs use a base lexicon with 105/130 extensions installed side by side (default-mode navigation). distinct = event digests; non-trivial = at least one session was checked")
SESSION_ORACLES = tuple('nav'.split(','))


class S(SessionSim):
    session_oracles = SESSION_ORACLES
    configs_per_state = 4


def profile(rng):
    prof = U.Profile.draw(rng)
    prof['max_entries'] = min(prof['max_entries'], 4)
    prof['max_synsets'] = min(prof['max_synsets'], 4)
    prof['n_ili_files'] = min(prof['n_ili_files'], 1)
    prof['p_second_version'] = rng.choice([0.4, 0.9])
    prof['p_ili'] = rng.choice([0.7, 1.0])
    prof['ili_pool'] = rng.choice([3, 6])
    return prof


def build(seed):
    rng = subseed(seed, 'universe')
    u = U.generate(rng, profile(rng))
    prng = subseed(seed, 'plan')
    swarm = {'routes': prng.random() < 0.6, 'batch': prng.random() < 0.3, 'short_reads': False,
             'external': prng.random() < 0.1}
    plan = [op for op in P.history(prng, u, prng.randint(4, 9), swarm)
            if op['op'] != 'checkpoint']
    if prng.random() < 0.3:
        # a failed add/remove earlier in the history must not matter either
        plan = P.sprinkle_faults(prng, plan, 1)
    return u, plan


class ManyS(SessionSim):
    """A base lexicon with more than a hundred extensions installed side by side: the
    navigation laws in default mode (where a word's senses come from its whole family)."""
    session_oracles = ()

    def default_nav(self):
        import random
        rng = random.Random('%s:many' % self.seed)
        self.session_oracles = ('nav',)
        self.W.begin_op(budget=None)
        try:
            self.run_session({'expand': ''}, rng)
            self.run_session({'lexicon': 'mb:1 mx:*', 'expand': ''}, rng)
        finally:
            self.W.end_op()
            self.session_oracles = ()
        self.probe('many-extensions')


def run_many(seed):
    u = U.generate_many_ext(subseed(seed, 'universe-many'))
    plan = [{'op': 'add', 'res': r['name']} for r in u['resources']]
    SessionSim.evals = 0
    r = run_plan(PROP, seed, u, plan, [], ['default_nav'], sim_cls=ManyS)
    r['evals'] = SessionSim.evals
    r['nontrivial'] = r['evals'] > 0
    r['sample'] = {'many_ext': u['profile']['many_ext']}
    r['replay'] = {'many': True}
    return r


def run_one(seed, tier):
    if subseed(seed, 'many').random() < 0.002:
        return run_many(seed)
    u, plan = build(seed)
    SessionSim.evals = 0
    r = run_plan(PROP, seed, u, plan, ORACLES, sim_cls=S)
    r['evals'] = SessionSim.evals
    r['nontrivial'] = r['evals'] > 0 and r['n_installed_final'] >= 1
    r['sample'] = plan_summary(u, plan)
    r['replay'] = {'universe': u, 'plan': plan, 'oracles': ORACLES, 'end_checks': []}
    return r


def replay(obj):
    if obj.get('many'):
        return run_many(obj['seed'])
    return run_plan(PROP, obj['seed'], obj['universe'], obj['plan'], ORACLES, sim_cls=S)


def coverage_extra(results):
    return {'session_evaluations': sum(r.get('evals', 0) for r in results)}
