"""C12 — see DESIGN.md section 4.C12 and simwn/sessions.py."""
from __future__ import annotations

from .. import universe as U, plan as P
from ..harness import subseed, run_plan, plan_summary
from ..sessions import SessionSim

PROP = 'C12'
LEVEL = 'exploration'
ORACLES = ['installed']
RULE = ("long-lived default-mode Wordnets (up to 3) are re-queried through the same object after every later addition; 3% hub worlds (k=40..300 children, extensions arriving later); one run = seeded universe of lexicons with partially overlapping ILIs from a pool of 3-6 (several synsets per ILI, synsets with no/proposed ILI), Requires on installed and never-installed lexicons + seeded history in which providers are installed, missing, arrive later or are removed; after every op up to 5 sessions with expand in {default, '', one, two, '*'}; oracle: expanded_lexicons == documented rule, WnWarning iff a declared dependency is missing (naming it), and for every synset of single-lexicon and default-mode sessions get_related/relations/relation_map == own relations followed by the model's ILI mapping (many-to-many, placeholders, dropped ILI-less targets). distinct = event digests; non-trivial = at least one borrowed relation was checked")
SESSION_ORACLES = tuple('expand'.split(','))


class S(SessionSim):
    """Besides the sessions opened after every operation: ONE long-lived default-mode Wordnet
    (an application's module-level ``wn.Wordnet()``), queried, kept while further lexicons and
    extensions are ADDED (by this or another process), and queried again through the same
    object. Its selected and expand lexicons are those of its creation; the lexicons a target
    is mapped into are, as in any default-mode Wordnet, the synset's lexicon with its bases
    and its *currently installed* extensions. Dropped at the first operation that is not an
    addition (objects that outlive a removal are not judged, DESIGN.md section 10)."""
    session_oracles = SESSION_ORACLES
    configs_per_state = 5
    KEEP = ('add', 'add_ili', 'restart')

    def after_op(self, op):
        import random
        import warnings
        kind = op['op']
        inner = op.get('do', {}).get('op') if kind == 'external' else None
        kept = self.__dict__.get('kept') or []
        if not (kind in self.KEEP or inner == 'add'):
            kept = []
        self.kept = kept
        super().after_op(op)
        if not self.m.installed:
            return
        rng = random.Random('%s:kept:%d' % (self.seed, self.step))
        self.W.begin_op(budget=self.budget * 50)
        try:
            with warnings.catch_warnings():
                warnings.simplefilter('ignore')
                for k in kept:
                    if sorted(self.m.installed) == sorted(k['S']) and rng.random() < 0.5:
                        continue
                    ctx = {'cfg': {'retained-default-mode-since-step': k['step']},
                           'S': k['S'], 'default': True, 'E': k['S'], 'retained': True}
                    obs = sorted(lx.specifier() for lx in k['w'].lexicons())
                    if obs == sorted(k['S']):
                        self.check_expand(k['w'], ctx, [], [], rng)
                        self.probe('retained-default-mode-requeried')
                        if sorted(self.m.installed) != sorted(k['S']):
                            self.probe('retained-default-mode-after-add')
                S0 = list(self.m.installed)
                if not any(sorted(k['S']) == sorted(S0) for k in kept):
                    w, _warns, exc = self.open({})
                    if exc is None and sorted(lx.specifier() for lx in w.lexicons()) == sorted(S0):
                        ctx = {'cfg': {}, 'S': S0, 'default': True, 'E': S0, 'retained': True}
                        self.check_expand(w, ctx, [], [], rng)      # the first round of queries
                        self.kept = (kept + [{'w': w, 'S': S0, 'step': self.step}])[-3:]
        finally:
            self.W.end_op()


def profile(rng):
    prof = U.Profile.draw(rng)
    prof['max_entries'] = min(prof['max_entries'], 4)
    prof['max_synsets'] = min(prof['max_synsets'], 4)
    prof['n_ili_files'] = min(prof['n_ili_files'], 1)
    prof['p_requires'] = rng.choice([0.5, 1.0])
    prof['p_ili'] = 1.0
    prof['ili_pool'] = rng.choice([3, 6])
    prof['taxonomy'] = 0.5
    prof['p_rel'] = 0.8
    prof['n_bases'] = rng.choice([2, 3])
    return prof


def build_big(seed):
    rng = subseed(seed, 'universe-big')
    u = U.generate_big(rng, n=rng.choice([1030, 1100]))
    return u, [{'op': 'add', 'res': 'r0'}, {'op': 'add', 'res': 'r1'}]


def build_hub(seed):
    rng = subseed(seed, 'universe-hub')
    u = U.generate_hub(rng)
    plan = [{'op': 'add', 'res': r['name']} for r in u['resources']]
    if rng.random() < 0.3:
        plan.insert(2, {'op': 'restart'})
    if rng.random() < 0.3:
        plan[-1] = {'op': 'external', 'do': plan[-1]}
    return u, plan


def build(seed):
    r = subseed(seed, 'big').random()
    if r < 0.003:
        return build_big(seed)     # a hub synset with > 1000 borrowed relations
    if r < 0.03:
        return build_hub(seed)     # hubs of 40-300 children, extensions arriving later
    rng = subseed(seed, 'universe')
    u = U.generate(rng, profile(rng))
    prng = subseed(seed, 'plan')
    swarm = {'routes': prng.random() < 0.6, 'batch': prng.random() < 0.3, 'short_reads': False,
             'external': prng.random() < 0.1}
    plan = [op for op in P.history(prng, u, prng.randint(4, 9), swarm)
            if op['op'] != 'checkpoint']
    return u, plan


def run_one(seed, tier):
    u, plan = build(seed)
    SessionSim.evals = 0
    r = run_plan(PROP, seed, u, plan, ORACLES, sim_cls=S)
    r['evals'] = SessionSim.evals
    r['nontrivial'] = r['probes'].get('borrowed-relations', 0) >= 1
    r['sample'] = plan_summary(u, plan)
    r['replay'] = {'universe': u, 'plan': plan, 'oracles': ORACLES, 'end_checks': []}
    return r


def replay(obj):
    return run_plan(PROP, obj['seed'], obj['universe'], obj['plan'], ORACLES, sim_cls=S)


def coverage_extra(results):
    return {'session_evaluations': sum(r.get('evals', 0) for r in results)}
