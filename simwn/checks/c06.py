"""C06 — a failed add or remove leaves the database exactly as it was (fault enumeration).

Profile A (enumeration): for a sampled (pre-history, target op) pair, *every* fault point
of F1 (progress callbacks), F2 (authorizer denials), F3 (failing SQL statements, before /
mid-batch; a denied COMMIT is one of the F2 points), F5 (VM interrupts, remove only), plus F4 (real disk-full)
and F7 (corrupted references) is injected in turn against a restored copy of the pre-state.

Profile B (sampled): C05-style histories in which up to two ops carry a random fault and all
C05 oracles keep running for the rest of the history (bounded liveness after faults stop).
"""
from __future__ import annotations

import copy
import json
import os
import sqlite3

from .. import universe as U, plan as P, observe, compare, xmlout
from ..harness import subseed, run_plan, plan_summary, enabled_findings
from ..run import Sim, Violation, SimHandler
from ..world import SimBudget
from ..model import Model

import wn
import wn._db

PROP = 'C06'
LEVEL = 'fault_enumeration'
F_CLOSE = 'C06-handler-close-raises-after-commit'
RULE = ('profile A: one evaluation = one injected fault point of a sampled (pre-history, target '
        'op) pair; per pair ALL points are enumerated: F1 progress-handler callback k=1..K '
        '(Exception and KeyboardInterrupt alternating), F2 authorizer denial n=1..A, F3 failing '
        'statement n=1..S before execution and mid-executemany-batch (I/O error / disk full / '
        'locked rotating; a denied COMMIT is one of the F2 points), F5 VM-interrupt v=1..V (remove), F4 real '
        'SQLITE_FULL at several page limits, F7 every corruptible reference of the document; '
        'oracle per point: call raises, durable raw dump of all tables byte-equal to pre-state, '
        'no open transaction/lock, API transcript unchanged (sampled), fault-free retry gives the '
        'normal post-state. profile B: C05 histories with <=2 faulted ops and all C05 oracles. '
        'distinct = distinct (pair digest, fault kind, index); non-trivial = the fault fired '
        'after the first write statement of the op')
ASSUMPTIONS = ['process kill / power loss is excluded by design (wn sets synchronous=OFF, '
               'journal_mode=MEMORY and accepts corruption there; no property promises it)']


class Enum(Sim):
    """Sim with snapshot/restore of (database file, model)."""

    def save(self):
        self.snap = self.W.snapshot()
        self.snap_model = self.m.copy()

    def load(self):
        self.W.restore(self.snap)
        self.m = self.snap_model.copy()


def target_op(rng, u, m: Model):
    r = rng.random()
    resources = u['resources']
    addable = [res for res in resources if m.plan_add(res['lexicons'])]
    if m.installed and (r < 0.3 or not addable):
        cands = list(m.installed)
        with_ext = [sp for sp in cands if m.extensions_of(sp)]
        sp = rng.choice(with_ext) if with_ext and rng.random() < 0.6 else rng.choice(cands)
        if rng.random() < 0.25:
            spec = rng.choice(['*', '%s:*' % u['lexicons'][sp]['id']])
        else:
            spec = sp
        return {'op': 'remove', 'spec': spec}
    if u['ili_files'] and r > 0.9:
        f = rng.choice(u['ili_files'])
        return {'op': 'add_ili', 'file': f['name'], 'route': 'xml',
                'batch': rng.choice([1, 2, 1000])}
    multi = [res for res in addable if len(m.plan_add(res['lexicons'])) > 1]
    res = rng.choice(multi) if multi and rng.random() < 0.6 else rng.choice(addable or resources)
    return {'op': 'add', 'res': res['name'],
            'route': rng.choice(['xml', 'xml', 'gz', 'mem', 'tar-file']),
            'batch': rng.choice([1, 2, 3, 1000, 1000])}


def build(seed):
    rng = subseed(seed, 'universe')
    prof = U.Profile.draw(rng)
    prof['max_entries'] = min(prof['max_entries'], 4)
    prof['max_synsets'] = min(prof['max_synsets'], 4)
    prof['multi_file'] = rng.choice([0.5, 0.9])
    u = U.generate(rng, prof)
    prng = subseed(seed, 'plan')
    m = Model(u)
    pre = P.history(prng, u, prng.randint(0, 4), {'routes': False, 'batch': False,
                                                  'short_reads': False}, model=m)
    pre = [op for op in pre if op['op'] != 'checkpoint']
    tgt = target_op(prng, u, m)
    return u, pre, tgt


def transcript(sim):
    out = {}
    for fam in sim.families():
        w = wn.Wordnet(lexicon=' '.join(fam), expand='')
        out[' '.join(fam)] = observe.image(w)
    out['*lexicons*'] = sorted(lx.specifier() for lx in wn.lexicons())
    out['*ilis*'] = sorted([str(i.id), i.status, str(i.definition())] for i in wn.ilis())
    return compare.canon(out)


def run_target(sim, op, fault=None, record=False, page_limit=None, authorizer=False):
    """Execute the target op once; returns (exception, fired, counters, cb_log, stmt_log)."""
    W = sim.W
    kind = op['op']
    if kind == 'add':
        res = sim.res[op['res']]
        cache = sim.__dict__.setdefault('_paths', {})
        ck = (op['res'], op.get('route', 'xml'))
        if ck not in cache:
            cache[ck] = sim.materialise(res, op.get('route', 'xml'), tag='-tgt')[0]
        path = cache[ck]
        fn = lambda: sim.raw_add(path, op.get('route', 'xml'))
    elif kind == 'add_ili':
        cache = sim.__dict__.setdefault('_paths', {})
        ck = ('ili', op['file'])
        if ck not in cache:
            cache[ck] = sim.materialise_ili(sim.ilif[op['file']], op.get('route', 'xml'))[0]
        path = cache[ck]
        fn = lambda: wn.add(path, progress_handler=SimHandler)
    else:
        fn = lambda: wn.remove(op['spec'], progress_handler=SimHandler)
    sim._knobs(op)
    W.begin_op(budget=sim.budget, record=record)
    locker = None
    if fault and fault['kind'] in ('LOCKW', 'LOCKR'):
        # a second process (an independent connection wn knows nothing about) holds a lock
        wn._db.connect()
        locker = observe.observer(W.dbpath())
        locker.isolation_level = None
        if fault['kind'] == 'LOCKW':
            locker.execute('BEGIN IMMEDIATE')          # RESERVED: nobody else may write
        else:
            locker.execute('BEGIN')
            locker.execute('SELECT count(*) FROM lexicons').fetchall()   # SHARED until released
        fault = None
    if page_limit is not None:
        conn = wn._db.connect()
        pages = conn.execute('PRAGMA page_count').fetchone()[0]
        conn.execute('PRAGMA max_page_count = %d' % (pages + page_limit))
    if authorizer and not (fault and fault['kind'] == 'F2'):
        W.arm_authorizer()
    sim._arm(fault)
    _, exc = sim.call(fn)
    counters = dict(W.counters)
    cb_log, stmt_log = list(W.cb_log), list(W.stmt_log)
    fired = W.end_op()
    if locker is not None:
        locker.execute('ROLLBACK')
        locker.close()
        if isinstance(exc, sqlite3.OperationalError) and 'locked' in str(exc):
            fired = fired + ['F8-real-lock-' + ('writer' if counters['stmt'] else 'reader')]
    if page_limit is not None:
        conn = wn._db.pool.get(wn.config.database_path)
        if conn is not None:
            conn.execute('PRAGMA max_page_count = 1073741823')
    W.set_batch(1000)
    return exc, fired, counters, cb_log, stmt_log


def apply_to_model(sim, op):
    if op['op'] == 'add':
        return sim.m.add_resource(sim.res[op['res']]['lexicons'])
    if op['op'] == 'add_ili':
        sim.m.add_ili(sim.ilif[op['file']])
        return None
    return sim.m.remove_specs(sim.m.select(op['spec']))


def enumerate_pair(seed, tier, explicit=None):
    only = None
    if explicit is not None:
        u, pre, tgt, only = explicit
    else:
        u, pre, tgt = build(seed)
    sim = Enum(u, seed, PROP, ['installed', 'image'])
    stats = {'points': 0, 'nontrivial': set(), 'by_kind': {}, 'cells': set(),
             'skipped_noop_target': 0}
    violation = None
    known_local = {}
    compare.KNOWN_HITS.clear()
    compare.ENABLED_FINDINGS.clear()
    compare.ENABLED_FINDINGS.update(enabled_findings())
    try:
        try:
            for op in pre:
                sim.do(op)
            sim.step += 1
            wn._db.connect()          # make sure the schema exists before the snapshot
            sim.save()
            pre_dump = observe.raw_dump(sim.W.dbpath())
            pre_tr = transcript(sim)
            # ---- learning run (fault-free, with a permissive authorizer to count callbacks)
            exc, fired, cnt, cb_log, stmt_log = run_target(sim, tgt, record=True,
                                                            authorizer=True)
            expect_nomatch = tgt['op'] == 'remove' and not sim.m.select(tgt['spec'])
            if exc is not None and not (expect_nomatch and isinstance(exc, wn.Error)):
                raise Violation(PROP, 'target-raises', 'fault-free target op raised %s'
                                % type(exc).__name__, {'exc': repr(exc), 'op': tgt})
            txns = apply_to_model(sim, tgt)
            sim.check_installed()
            sim.check_images()
            sim.W.restart()
            post_dump = observe.raw_dump(sim.W.dbpath())
            K, S, A = cnt['cb'], cnt['stmt'], cnt['auth']
            writes = [i for i, (k, sql, n) in enumerate(stmt_log, 1)
                      if sql.split()[0].upper() in ('INSERT', 'DELETE', 'UPDATE')]
            first_write = writes[0] if writes else None
            noop = (post_dump == pre_dump)
            # prefix states for per-lexicon transactions of a multi-match removal
            accepted = [pre_dump]
            if tgt['op'] == 'remove' and txns and len(txns) > 1:
                # a specifier matching several lexicons is removed in per-lexicon
                # transactions: the accepted durable states are the prefix states (a later
                # match may already be gone as the extension of an earlier one, so the last
                # prefix state can equal the complete result while the call is still looping)
                done = []
                nonempty = [t for t in txns if t]
                for t in nonempty[:-1]:
                    done.append(t[-1])
                    sim.load()
                    for sp in done:
                        wn.remove(sp, progress_handler=None)
                    sim.W.restart()
                    accepted.append(observe.raw_dump(sim.W.dbpath()))
                if txns[-1] == [] or len(nonempty) < len(txns):
                    accepted.append(post_dump)
            # ---- the fault space
            points = []
            for k in range(1, K + 1):
                points.append({'kind': 'F1', 'at': k,
                               'exc': ('fault', 'interrupt', 'fault', 'exit', 'cancel',
                                       'interrupt')[k % 6]})
            errs = ['disk I/O error', 'database or disk is full', 'database is locked']
            for n in range(1, S + 1):
                points.append({'kind': 'F3', 'at': n, 'err': errs[n % 3]})
                if stmt_log[n - 1][0] == 'executemany' and stmt_log[n - 1][2] > 1:
                    points.append({'kind': 'F3', 'at': n, 'err': errs[(n + 1) % 3],
                                   'mid': True})
            for n in range(1, A + 1):
                points.append({'kind': 'F2', 'at': n})
            if tgt['op'] == 'remove' and not expect_nomatch:
                # learn V for a small interval
                sim.load()
                f = {'kind': 'F5', 'at': 10 ** 9, 'interval': 40}
                exc, fired, cnt5, _, _ = run_target(sim, tgt, fault=f)
                V = cnt5['vm']
                step = max(1, V // (150 if tier == 'quick' else 400))
                for v in range(1, V + 1, step):
                    points.append({'kind': 'F5', 'at': v, 'interval': 40})
            for d in (0, 1, 2, 4):
                points.append({'kind': 'F4', 'pages': d})
            points.append({'kind': 'LOCKW'})
            points.append({'kind': 'LOCKR'})
            stats['K'], stats['S'], stats['A'] = K, S, A
            if only is not None:
                points = [only] if only.get('kind') != 'F7' else []
            # ---- enumerate
            for i, fault in enumerate(points):
                sim.load()
                kind = fault['kind']
                if kind == 'F4':
                    exc, fired, cnt, cbl, stl = run_target(sim, tgt, page_limit=fault['pages'])
                    fired = ['F4-disk-full'] if isinstance(exc, sqlite3.OperationalError) \
                        else []
                elif kind in ('LOCKW', 'LOCKR'):
                    exc, fired, cnt, cbl, stl = run_target(sim, tgt, fault=fault, record=True)
                    fired = ['F8-lock-%s' % ('writer' if kind == 'LOCKW' else 'reader')] \
                        if isinstance(exc, sqlite3.OperationalError) else []
                else:
                    exc, fired, cnt, cbl, stl = run_target(sim, tgt, fault=fault, record=True)
                if not fired:
                    continue      # the armed point was not reached (legal: e.g. F4 had room)
                sim.W.log(point=fault, fired=fired, exc=type(exc).__name__ if exc else None,
                          counters=cnt)
                stats['points'] += 1
                fk = fired[0]
                stats['by_kind'][fk] = stats['by_kind'].get(fk, 0) + 1
                stage = cbl[-1][1] if cbl else ''
                stats['cells'].add('%s@%s' % (fk, stage))
                wrote = any(sql.split()[0].upper() in ('INSERT', 'DELETE', 'UPDATE')
                            for _, sql, _ in stl)
                if wrote:
                    stats['nontrivial'].add((kind, fault.get('at', fault.get('pages')),
                                             bool(fault.get('mid'))))
                detail = {'fault': fault, 'target': tgt, 'fired': fired,
                          'stage': stage, 'exc': repr(exc)}
                # (c) no open transaction, no abandoned lock
                conn = wn._db.pool.get(wn.config.database_path)
                if conn is not None and conn.in_transaction:
                    raise Violation(PROP, 'open-transaction', 'pooled connection left inside '
                                    'a transaction after a failed %s' % tgt['op'], detail)
                try:
                    now = observe.raw_dump(sim.W.dbpath())
                except sqlite3.OperationalError as e:
                    raise Violation(PROP, 'abandoned-lock', 'independent observer cannot read '
                                    'the database after a failed %s: %s' % (tgt['op'], e), detail)
                # (a) the call must raise unless the op had nothing left to do
                if exc is None and not noop:
                    raise Violation(PROP, 'fault-swallowed', '%s reported success although the '
                                    'injected fault fired' % tgt['op'], detail)
                # (b) durable state
                if now not in accepted:
                    last_close = (kind == 'F1' and fault['at'] == K and cbl
                                  and cbl[-1][0] == 'close')
                    if last_close and now == post_dump and F_CLOSE in compare.ENABLED_FINDINGS:
                        compare.note_known(F_CLOSE)
                        continue
                    tables = [t for t in now if now.get(t) != pre_dump.get(t)]
                    complete = (now == post_dump)
                    raise Violation(
                        PROP, 'durable-state',
                        'failed %s changed the database (%s)' % (
                            tgt['op'], 'change fully committed although the call raised'
                            if complete else 'partial change'),
                        dict(detail, tables_changed=tables,
                             sample={t: [r for r in now[t] if r not in pre_dump.get(t, [])][:3]
                                     for t in tables[:3]}),
                        tags=(['committed-then-raised'] if complete else ['partial'])
                        + (['handler-close-last-callback'] if last_close else []))
                # (d) API transcript (sampled: implied by (b)+(c))
                if i % 7 == 0 and now == pre_dump:
                    tr = transcript(sim)
                    if tr != pre_tr:
                        raise Violation(PROP, 'api-transcript', 'public API differs from the '
                                        'pre-state after a failed %s' % tgt['op'], detail)
                # (e) fault-free retry on the same pooled connection gives the normal result
                if now == pre_dump:
                    exc2, _, _, _, _ = run_target(sim, tgt)
                    if exc2 is not None and not (expect_nomatch and isinstance(exc2, wn.Error)):
                        raise Violation(PROP, 'retry-fails', 'fault-free retry after a failed '
                                        '%s raised %s' % (tgt['op'], type(exc2).__name__),
                                        dict(detail, retry_exc=repr(exc2)))
                    sim.W.restart()
                    again = observe.raw_dump(sim.W.dbpath())
                    if again != post_dump:
                        tables = [t for t in again if again.get(t) != post_dump.get(t)]
                        raise Violation(PROP, 'retry-differs', 'retry after a failed %s does '
                                        'not give the normal result' % tgt['op'],
                                        dict(detail, tables=tables))
            # ---- F7: corrupted references (adds only)
            if tgt['op'] == 'add':
                for mut in f7_mutants(u, sim.res[tgt['res']], sim.snap_model):
                    if only is not None and not (only.get('kind') == 'F7'
                                                 and only.get('where') == mut['where']):
                        continue
                    sim.load()
                    exc = add_mutant(sim, mut)
                    stats['points'] += 1
                    stats['by_kind']['F7-' + mut['what']] = \
                        stats['by_kind'].get('F7-' + mut['what'], 0) + 1
                    stats['nontrivial'].add(('F7', mut['what'], mut['pos']))
                    detail = {'fault': {'kind': 'F7', 'what': mut['what'], 'where': mut['where']},
                              'target': tgt, 'exc': repr(exc)}
                    if exc is None and mut['must_fail']:
                        raise Violation(PROP, 'bad-reference-accepted', 'add accepted a '
                                        'resource with %s' % mut['what'], detail)
                    conn = wn._db.pool.get(wn.config.database_path)
                    if conn is not None and conn.in_transaction:
                        raise Violation(PROP, 'open-transaction', 'pooled connection left '
                                        'inside a transaction after a failed add', detail)
                    now = observe.raw_dump(sim.W.dbpath())
                    if exc is not None and now != pre_dump:
                        tables = [t for t in now if now.get(t) != pre_dump.get(t)]
                        raise Violation(PROP, 'durable-state', 'failed add changed the database '
                                        '(partial change)', dict(detail, tables_changed=tables),
                                        tags=['partial', 'F7'])
                    if exc is not None:
                        exc2, _, _, _, _ = run_target(sim, tgt)
                        sim.W.restart()
                        if exc2 is not None or observe.raw_dump(sim.W.dbpath()) != post_dump:
                            raise Violation(PROP, 'retry-differs', 'valid add after a rejected '
                                            'one does not give the normal result',
                                            dict(detail, retry_exc=repr(exc2)))
        except Violation as v:
            violation = v.to_json()
        except SimBudget as b:
            violation = Violation(PROP, 'termination', 'statement budget exhausted',
                                  {'msg': str(b)}).to_json()
        return {
            'seed': seed, 'violation': violation, 'digest': sim.W.event_digest(),
            'ops': stats['points'], 'faults': stats['by_kind'], 'states': [],
            'probes': {'pairs': 1, 'target-' + tgt['op']: 1,
                       'K': stats.get('K', 0), 'S': stats.get('S', 0), 'A': stats.get('A', 0)},
            'cells': sorted(stats['cells']), 'points': stats['points'],
            'nontrivial_points': len(stats['nontrivial']),
            'known_hits': dict(compare.KNOWN_HITS),
            'nontrivial': stats['points'] > 0,
            'sample': {'pre_history': pre, 'target': tgt,
                       'fault_space': {'K': stats.get('K'), 'S': stats.get('S'),
                                       'A': stats.get('A')},
                       'universe': plan_summary(u, [])['lexicons']},
            'replay': {'universe': u, 'pre': pre, 'target': tgt, 'mode': 'A',
                       'fault': (violation or {}).get('detail', {}).get('fault')
                       if violation else None},
        }
    finally:
        sim.close()


def f7_mutants(u, res, model):
    """One corrupted copy of the resource per corruptible reference position."""
    out = []
    specs = res['lexicons']
    todo = model.plan_add(specs)
    for li, sp in enumerate(specs):
        if sp not in todo:
            continue
        doc = u['lexicons'][sp]
        pos = 0
        for ei, e in enumerate(doc.get('entries', [])):
            for si, s in enumerate(e.get('senses', [])):
                if not s.get('external'):
                    out.append({'what': 'unresolvable sense->synset', 'lex': sp, 'pos': pos,
                                'where': ['entries', ei, 'senses', si, 'synset'],
                                'must_fail': True})
                    pos += 1
                if not s.get('external') and res['lmf_version'] != '1.0' and si == 0:
                    out.append({'what': 'unresolvable sense->frame (subcat)', 'lex': sp,
                                'pos': pos, 'must_fail': True,
                                'where': ['entries', ei, 'senses', si, 'subcat'],
                                'value': ['no-such-frame-xyz']})
                    pos += 1
                for ri, r in enumerate(s.get('relations', []) or []):
                    out.append({'what': 'unresolvable sense-relation target', 'lex': sp,
                                'pos': pos, 'must_fail': True,
                                'where': ['entries', ei, 'senses', si, 'relations', ri, 'target']})
                    pos += 1
        for si, ss in enumerate(doc.get('synsets', [])):
            for ri, r in enumerate(ss.get('relations', []) or []):
                out.append({'what': 'unresolvable synset-relation target', 'lex': sp, 'pos': pos,
                            'where': ['synsets', si, 'relations', ri, 'target'],
                            'must_fail': True})
                pos += 1
        local = [i for i, e in enumerate(doc.get('entries', [])) if not e.get('external')]
        if len(local) >= 2:
            out.append({'what': 'duplicate entry id', 'lex': sp, 'pos': pos, 'must_fail': True,
                        'where': ['entries', local[-1], 'id'],
                        'value': doc['entries'][local[0]]['id']})
        for ei in local:
            e = doc['entries'][ei]
            if e['lemma'].get('script'):
                out.append({'what': 'duplicate form', 'lex': sp, 'pos': ei, 'must_fail': True,
                            'where': ['entries', ei, 'forms', 'append'],
                            'value': {'writtenForm': e['lemma']['writtenForm'],
                                      'script': e['lemma']['script'], 'tags': [],
                                      'pronunciations': []}})
                break
    return out


def add_mutant(sim, mut):
    u = sim.u
    res = sim.res[[r['name'] for r in u['resources'] if mut['lex'] in r['lexicons']][0]]
    docs = []
    for sp in res['lexicons']:
        d = u['lexicons'][sp]
        if sp == mut['lex']:
            d = copy.deepcopy(d)
            x = d
            w = mut['where']
            for k in w[:-1]:
                x = x[k]
            if w[-1] == 'append':
                x.append(mut['value'])
            else:
                x[w[-1]] = mut.get('value', 'no-such-id-xyz')
        docs.append(d)
    data = xmlout.Writer(res['lmf_version']).resource(docs).encode('utf-8')
    path = xmlout.package('xml', sim.W.workdir('f7-%d' % sim.W.counters.get('x', 0)),
                          'mut', data)
    sim.W.begin_op(budget=sim.budget)
    _, exc = sim.call(wn.add, path, progress_handler=SimHandler)
    sim.W.end_op()
    return exc


# -- profile B: histories with sampled faults --------------------------------------------------

class FaultySim(Sim):
    """History with sampled faults (reconciliation of faulted ops lives in Sim)."""


def build_b(seed):
    rng = subseed(seed, 'universe')
    u = U.generate(rng)
    prng = subseed(seed, 'plan')
    plan = P.history(prng, u, prng.randint(6, 12), {'routes': True, 'batch': True,
                                                    'short_reads': True})
    cands = [i for i, op in enumerate(plan) if op['op'] in ('add', 'remove', 'add_ili')]
    for i in prng.sample(cands, min(len(cands), prng.choice([1, 2]))):
        k = prng.choice(['F1', 'F1', 'F3', 'F3', 'F2', 'F5', 'F6'])
        if k == 'F5' and plan[i]['op'] != 'remove':
            k = 'F3'
        if k == 'F6' and plan[i]['op'] != 'add':
            k = 'F1'
        f = {'kind': k}
        if k == 'F1':
            f['at'] = prng.choice([1, 2, 3, 5, 8, 13, 21, 34, 55, 89])
            f['exc'] = prng.choice(['fault', 'fault', 'interrupt', 'interrupt', 'exit', 'cancel'])
        elif k == 'F3':
            f['at'] = prng.choice([1, 2, 3, 5, 8, 13, 21, 34])
            f['mid'] = prng.random() < 0.3
            f['err'] = prng.choice(['disk I/O error', 'database or disk is full'])
        elif k == 'F2':
            f['at'] = prng.choice([1, 3, 9, 27, 81])
        elif k == 'F5':
            f['at'] = prng.choice([1, 2, 5, 20])
            f['interval'] = prng.choice([7, 40])
        elif k == 'F6':
            f['cut'] = prng.random()          # torn input file: keep this fraction of bytes
            # ... as a plain file or inside a package directory; half of the time the copy
            # then completes (same file rewritten in place) and the same path is added again
            plan[i] = dict(plan[i], route=prng.choice(['xml', 'pkg']),
                           repair=prng.random() < 0.5)
            plan[i].pop('siblings', None)     # (a single file or package, not a collection)
        plan[i] = dict(plan[i], fault=f)
    return u, plan


ORACLES_B = ['installed', 'image', 'integrity']


HUGE_XML = '''<?xml version="1.0" encoding="UTF-8"?>
<!DOCTYPE LexicalResource SYSTEM "http://globalwordnet.github.io/schemas/WN-LMF-1.1.dtd">
<LexicalResource xmlns:dc="https://globalwordnet.github.io/schemas/dc/">
  <Lexicon id="huge" label="Huge" language="en" email="m@example.com" license="MIT" version="1">
    <LexicalEntry id="huge-e0"><Lemma writtenForm="w0" partOfSpeech="n"/>
      <Sense id="huge-k0" synset="huge-s0"><SenseRelation relType="derivation" target="huge-k0"/></Sense>
    </LexicalEntry>
    <Synset id="huge-s0" ili="" partOfSpeech="n"><SynsetRelation relType="similar" target="huge-s0"/></Synset>
  </Lexicon>
</LexicalResource>
'''


def run_huge(seed):
    """An add that writes more than a million rows (the size of a real wordnet: any batching,
    intermediate commit or lock-yielding logic keyed on volume is crossed) and fails at its
    very end: an unresolvable relation target in the last sense, or an exception from the
    progress handler in one of the last callbacks.  The database must be what it was."""
    import copy
    rng = subseed(seed, 'huge')
    u = {'profile': {'huge': True}, 'lexicons': {}, 'order': [], 'resources': [], 'ili_files': []}
    sim = FaultySim(u, seed, PROP, [])
    violation = None
    mode = rng.choice(['F7-dangling', 'F1-late'])
    try:
        try:
            wd = sim.W.workdir('huge')
            path = os.path.join(wd, 'tiny.xml')
            with open(path, 'w', encoding='utf-8') as f:
                f.write(HUGE_XML)
            res = wn.lmf.load(path, progress_handler=None)
            lex = res['lexicons'][0]
            ss0, e0 = lex['synsets'][0], lex['entries'][0]
            rel0 = ss0['relations'][0]
            n, k = 2100, 500
            lex['synsets'] = [dict(ss0, id='huge-s%d' % i,
                                   relations=[dict(rel0, target='huge-s%d' % ((i + j + 1) % n))
                                              for j in range(k)]) for i in range(n)]
            entries = []
            for i in range(n):
                e = copy.deepcopy(e0)
                e['id'] = 'huge-e%d' % i
                e['lemma']['writtenForm'] = 'w%d' % i
                e['senses'][0].update(id='huge-k%d' % i, synset='huge-s%d' % i)
                e['senses'][0]['relations'][0]['target'] = 'huge-k%d' % ((i + 1) % n)
                entries.append(e)
            lex['entries'] = entries
            if mode == 'F7-dangling':
                entries[-1]['senses'][0]['relations'][0]['target'] = 'huge-no-such-sense'
            wn._db.connect()
            sim.W.restart()
            pre = observe.raw_dump(sim.W.dbpath())
            sim.W.begin_op(budget=None, record=True)
            if mode == 'F1-late':
                # count the callbacks of this add on a scratch node first
                cur = sim.W.cur
                sim.W.use(sim.W.node('scratch') and 'scratch')
                sim.call(wn.add_lexical_resource, copy.deepcopy(res), progress_handler=SimHandler)
                K = sim.W.counters['cb']
                sim.W.restart()
                sim.W.use(cur)
                sim.W.end_op()
                sim.W.begin_op(budget=None)
                sim.W.faults.cb_at = max(1, K - rng.choice([1, 2, 3]))
                sim.W.faults.cb_exc = rng.choice(['fault', 'interrupt'])
            _, exc = sim.call(wn.add_lexical_resource, res, progress_handler=SimHandler)
            fired = sim.W.end_op()
            detail = {'mode': mode, 'rows_attempted': n * k + 4 * n, 'exc': repr(exc)[:200],
                      'fired': fired}
            if exc is None:
                raise Violation(PROP, 'huge-add', 'the faulty add of a huge resource did not '
                                'fail', detail)
            if any(x.startswith('F1-handler-close') for x in fired):
                return None        # (the known finding about close(); nothing to judge)
            sim.W.restart()
            post = observe.raw_dump(sim.W.dbpath())
            if post != pre:
                changed = {t: [len(pre.get(t, [])), len(post.get(t, []))] for t in post
                           if post[t] != pre.get(t)}
                raise Violation(PROP, 'durable-state', 'failed add of a resource of more than a '
                                'million rows changed the database (partial change)',
                                dict(detail, rows_before_after=changed))
            with open(path, 'w', encoding='utf-8') as f:
                f.write(HUGE_XML)
            _, exc = sim.call(wn.add, path, progress_handler=None)
            if exc is not None or [x.specifier() for x in wn.lexicons()] != ['huge:1']:
                raise Violation(PROP, 'usable-after', 'a valid add after the failed huge add '
                                'does not give the normal result',
                                dict(detail, exc2=repr(exc), lexicons=[x.specifier()
                                                                       for x in wn.lexicons()]))
        except Violation as v:
            violation = v.to_json()
        return {'seed': seed, 'violation': violation, 'digest': sim.W.event_digest(),
                'ops': 1, 'faults': {mode: 1}, 'states': [], 'probes': {'huge-add': 1},
                'cells': [], 'points': 1, 'nontrivial_points': 1, 'known_hits': {},
                'nontrivial': True, 'sample': {'huge': mode},
                'replay': {'mode': 'huge'}}
    finally:
        sim.close()


def is_huge(seed, tier):
    return tier == 'thorough' and seed % 600 == 5       # 2 of the 1200 thorough runs


def run_one(seed, tier):
    if is_huge(seed, tier):
        r = run_huge(seed)
        if r is not None:
            return r
    if seed % 3 == 2:
        u, plan = build_b(seed)
        r = run_plan(PROP, seed, u, plan, ORACLES_B, ['check_fresh'], sim_cls=FaultySim)
        r['nontrivial'] = bool(r['faults'])
        r['points'] = sum(r['faults'].values())
        r['nontrivial_points'] = r['points']
        r['sample'] = dict(plan_summary(u, plan), profile='B')
        r['replay'] = {'universe': u, 'plan': plan, 'mode': 'B'}
        return r
    return enumerate_pair(seed, tier)


def replay(obj):
    if obj.get('mode') == 'huge':
        return run_huge(obj['seed'])
    if obj.get('mode') == 'B':
        return run_plan(PROP, obj['seed'], obj['universe'], obj['plan'], ORACLES_B,
                        ['check_fresh'], sim_cls=FaultySim)
    return enumerate_pair(obj['seed'], 'quick',
                          explicit=(obj['universe'], obj['pre'], obj['target'], obj.get('fault')))


def coverage_extra(results):
    pts = sum(r.get('points', 0) for r in results)
    nt = sum(r.get('nontrivial_points', 0) for r in results)
    pairs = sum(1 for r in results if r.get('probes', {}).get('pairs'))
    return {'evaluations': max(pts, 1), 'distinct_nontrivial': nt,
            'pairs_enumerated_exhaustively': pairs,
            'profile_B_runs': len(results) - pairs,
            'exhaustive_over': 'the F1/F2/F3/F5 fault points of each sampled pair (F5 strided '
                               'when a removal offers more than 150/400 interrupt points)'}
