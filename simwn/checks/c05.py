"""C05 — database content is a function of the installed set (fault-free histories)."""
from __future__ import annotations

from .. import universe as U, plan as P
from ..harness import subseed, run_plan, plan_summary

PROP = 'C05'
LEVEL = 'exploration'
ORACLES = ['installed', 'image', 'integrity']
END = ['check_fresh']
RULE = ('one run = a seeded universe (bases, several versions per id, extensions, extensions of '
        'extensions, requires, ILI files) + a seeded fault-free history of 6-14 add/remove/'
        'add-ILI/restart/checkpoint ops with random routes, BATCH_SIZE and read chunking; after '
        '(in 30% of the runs removed lexicons are RE-RELEASED: other content under the same '
        'id:version, re-added later - usually at the rowid the old release had; in 15% of the '
        'runs that have an extension of b:v1 and a release b:v2, one extra file ships '
        '[extension, b:v2] together and is added while b:v1 is installed); '
        'every op: installed set, full model image per extension family, dependency links, '
        'foreign_key_check/integrity_check; at checkpoints and at the end: rowid-free logical dump '
        'equal to a database built fresh from the installed set. distinct = distinct event '
        'digests; non-trivial = at least one successful removal and two distinct store states')


def build_big(seed):
    rng = subseed(seed, 'universe-big')
    u = U.generate_big(rng)
    plan = [{'op': 'add', 'res': 'r1'}, {'op': 'add', 'res': 'r0'},
            {'op': 'remove', 'spec': 'bige:1'}, {'op': 'add', 'res': 'r0', 'route': 'gz'}]
    return u, plan


def build(seed):
    if subseed(seed, 'big').random() < 0.001:
        return build_big(seed)
    rng = subseed(seed, 'universe')
    prof = U.Profile.draw(rng)
    rerelease = subseed(seed, 'rerelease').random() < 0.3
    if rerelease:
        prof['p_rerelease'] = 0.7
    u = U.generate(rng, prof)
    prng = subseed(seed, 'plan')
    swarm = {'routes': prng.random() < 0.7, 'batch': prng.random() < 0.7,
             'short_reads': prng.random() < 0.5, 'external': prng.random() < 0.08,
             'rerelease': rerelease}
    plan = P.history(prng, u, prng.randint(6, 14), swarm)
    pack = pack_extension_with_next_release(u, subseed(seed, 'pack'))
    if pack:
        plan = pack + plan
    return u, plan


def pack_extension_with_next_release(u, rng):
    """An extension shipped in ONE file together with the next release of its base (which keeps
    the base's identifiers): [extension of b:v1, b:v2]. Added while b:v1 is installed, the
    extension is really added in that call and the lexicon after it has local ids equal to the
    extension's External* ids. Returns the ops to run first (or None)."""
    if rng.random() >= 0.15:
        return None
    docs = u['lexicons']
    res_of = {sp: r for r in u['resources'] for sp in r['lexicons']}
    cands = []
    for x, d in docs.items():
        if not d.get('extends'):
            continue
        b = '%s:%s' % (d['extends']['id'], d['extends']['version'])
        if b not in docs or docs[b].get('extends'):
            continue
        for b2, d2 in docs.items():
            if b2 != b and d2['id'] == docs[b]['id'] and not d2.get('extends'):
                cands.append((x, b, b2))
    if not cands:
        return None
    x, b, b2 = rng.choice(cands)
    v = max(res_of[x]['lmf_version'], res_of[b2]['lmf_version'], '1.1')
    if res_of[x]['lmf_version'] != v or res_of[b2]['lmf_version'] != v:
        return None          # documents are only ever written under the version they were drawn for
    name = 'rpack'
    u['resources'].append({'name': name, 'lmf_version': v, 'lexicons': [x, b2]})
    ops = [{'op': 'add', 'res': res_of[b]['name']}, {'op': 'add', 'res': name}]
    if rng.random() < 0.5:
        ops.append({'op': 'remove', 'spec': b})
    ops.append({'op': 'checkpoint'})
    return ops


def run_one(seed, tier):
    u, plan = build(seed)
    r = run_plan(PROP, seed, u, plan, ORACLES, END)
    r['nontrivial'] = r['probes'].get('remove-ok', 0) >= 1 and len(r['states']) >= 2
    r['sample'] = plan_summary(u, plan)
    r['replay'] = {'universe': u, 'plan': plan, 'oracles': ORACLES, 'end_checks': END}
    return r


def replay(obj):
    return run_plan(PROP, obj['seed'], obj['universe'], obj['plan'], obj['oracles'],
                    obj['end_checks'])
