"""C19 — loading an ILI index only updates ILI status and definitions."""
from __future__ import annotations

from .. import universe as U, plan as P, observe, compare
from ..harness import subseed, run_plan, plan_summary
from ..run import Sim
from ..model import Model

import wn

PROP = 'C19'
LEVEL = 'exploration'
ORACLES = ['installed', 'image', 'ili']
RULE = ('one run = seeded universe with 1-3 ILI index files (overlapping ids, ids no lexicon '
        'uses, statuses active/provisional/deprecated/other, empty and missing definition '
        'column, upper/lower-case header, plain/gz/package routes) + a seeded interleaving of '
        'add(lexicons)/add(index)/remove/restart; after every op: ilis table == model ILI '
        'table, every API-observable ILI has the model status/definition, and an add(index) '
        'leaves every lexicon-owned row untouched; each add(index) is repeated (no change); '
        'the plan is re-run with all index loads moved to the front or to the end and the '
        'final ILI statuses/definitions must agree. distinct = event digests; non-trivial = '
        'an index was loaded while >=1 lexicon using a listed ILI was installed. One or two of the '
        '2600 quick runs load an index of 40000 rows (more than SQLite has host parameters) '
        'used by a small lexicon whose ILIs are listed all over the file')


class IliSim(Sim):
    def op_add_ili(self, op):
        before = observe.logical_dump(self.W.dbpath())
        super().op_add_ili(op)
        if self.last.get('faulted'):
            return
        self.W.restart() if op.get('restart_after') else None
        after = observe.logical_dump(self.W.dbpath())
        if before['lexicons'] != after['lexicons']:
            owner = next(o for o in after['lexicons']
                         if before['lexicons'].get(o) != after['lexicons'][o])
            t = next(t for t in after['lexicons'][owner]
                     if before['lexicons'].get(owner, {}).get(t) != after['lexicons'][owner][t])
            raise self.violation('ili-touches-lexicons', 'adding an ILI index changed rows of '
                                 'table %s' % t, {'owner': owner, 'table': t, 'op': op})
        for k in ('relation_types', 'lexfiles'):
            if before['shared'][k] != after['shared'][k]:
                raise self.violation('ili-touches-lexicons', 'adding an ILI index changed '
                                     'lookup table %s' % k, {'op': op})
        f = self.ilif[op['file']]
        used = {r[1] for o in after['lexicons'].values() for r in o.get('synsets', []) if r[1]}
        if used & {r.get('ili') for r in f['rows']}:
            self.probe('index-over-used-ilis')
        # idempotence
        path, _ = self.materialise_ili(f, op.get('route', 'xml'))
        self.W.begin_op(budget=self.budget)
        _, exc = self.call(wn.add, path, progress_handler=None)
        self.W.end_op()
        if exc is not None:
            raise self.violation('ili-reload', 'loading the same ILI file again raised %s'
                                 % type(exc).__name__, {'exc': repr(exc), 'op': op})
        again = observe.logical_dump(self.W.dbpath())
        if again != after:
            raise self.violation('ili-reload', 'loading the same ILI file again changed the '
                                 'database', {'op': op,
                                              'ilis_before': after['shared']['ilis'][:6],
                                              'ilis_after': again['shared']['ilis'][:6]})

    def after_op(self, op):
        super().after_op(op)
        if 'ili' in self.oracles:
            self.check_ili()

    def check_ili(self):
        d = observe.logical_dump(self.W.dbpath())
        got = {r[0]: [r[1], r[2]] for r in d['shared']['ilis']}
        want = {k: [v['status'], v['definition']] for k, v in self.m.ilis.items()}
        if got != want:
            bad = sorted(k for k in set(got) | set(want) if got.get(k) != want.get(k))
            raise self.violation('ili-table', 'ILI table differs from the model (status / '
                                 'definition)', {'ili': bad[:5],
                                                 'observed': {k: got.get(k) for k in bad[:5]},
                                                 'expected': {k: want.get(k) for k in bad[:5]}})
        gm = {r[0]: r[3] for r in d['shared']['ilis']}
        # public API: every observable ILI reports the model's status and definition
        if not self.m.installed:
            api = {i.id: [i.status, i.definition()] for i in wn.ilis() if i.id}
            if api != {k: v for k, v in want.items() if k}:
                raise self.violation('ili-api', 'wn.ilis() of an empty database differs from '
                                     'the model', {'observed': api, 'expected': want})
            return
        for st in sorted({v[0] for v in want.values()} | {'presupposed'}):
            for i in wn.ilis(status=st):
                if i.id is not None and want.get(i.id) != [i.status, i.definition()]:
                    raise self.violation('ili-api', 'wn.ilis(status=...) reports another '
                                         'status/definition than the model',
                                         {'ili': i.id, 'observed': [i.status, i.definition()],
                                          'expected': want.get(i.id)})
                if i.status != st:
                    raise self.violation('ili-api', 'wn.ilis(status=s) returned an ILI of '
                                         'another status', {'ili': i.id, 'status': i.status,
                                                            'asked': st})
        for ss in wn.synsets():
            i = ss.ili
            if i is not None and i.id is not None:
                if want.get(i.id) != [i.status, i.definition()]:
                    raise self.violation('ili-api', 'Synset.ili reports another status/'
                                         'definition than the model',
                                         {'ili': i.id, 'observed': [i.status, i.definition()],
                                          'expected': want.get(i.id)})

    def final_ilis(self):
        d = observe.logical_dump(self.W.dbpath())
        return {r[0]: [r[1], r[2]] for r in d['shared']['ilis']}


def build_big(seed):
    rng = subseed(seed, 'universe-big')
    u = U.generate_big(rng, n=rng.choice([1030, 1100]))
    order = rng.random() < 0.5
    plan = [{'op': 'add', 'res': 'r0'}, {'op': 'add_ili', 'file': 'ili0'}]
    if order:
        plan.reverse()
    plan.append({'op': 'add', 'res': 'r1'})
    return u, plan


def build_huge(seed):
    """An index of 40000 rows: loaded after, before, and again after the
    lexicon that uses ILIs from all over the file."""
    rng = subseed(seed, 'universe-huge')
    u = U.generate_huge_ili(rng)
    plan = [{'op': 'add', 'res': 'r0'}, {'op': 'add_ili', 'file': 'ili0'}]
    if rng.random() < 0.3:
        plan.append({'op': 'restart'})
    return u, plan


def is_huge(seed, tier):
    return seed % 1600 == 9       # 1-2 of the 2600 quick runs, ~16 of the 26000 thorough runs


def build(seed, tier='quick'):
    if is_huge(seed, tier):
        return build_huge(seed)
    if subseed(seed, 'big').random() < 0.006:
        return build_big(seed)     # index of > 1000 rows at the default BATCH_SIZE
    rng = subseed(seed, 'universe')
    prof = U.Profile.draw(rng)
    prof['n_ili_files'] = rng.choice([1, 2, 3])
    prof['p_ili'] = rng.choice([0.7, 1.0])
    prof['max_entries'] = min(prof['max_entries'], 4)
    u = U.generate(rng, prof)
    prng = subseed(seed, 'plan')
    plan = []
    m = Model(u)
    swarm = {'routes': prng.random() < 0.5, 'batch': True, 'short_reads': False}
    for _ in range(prng.randint(4, 10)):
        r = prng.random()
        if r < 0.45:
            res = prng.choice(u['resources'])
            plan.append(P.add_op(prng, res, swarm))
            m.add_resource(res['lexicons'])
        elif r < 0.8:
            f = prng.choice(u['ili_files'])
            plan.append({'op': 'add_ili', 'file': f['name'],
                         'route': prng.choice(P.ILI_ROUTES), 'batch': prng.choice(P.BATCHES)})
        elif r < 0.92 and m.installed:
            spec = prng.choice(m.installed)
            plan.append({'op': 'remove', 'spec': spec})
            m.remove_specs(m.select(spec))
        else:
            plan.append({'op': 'restart'})
    if prng.random() < 0.25:
        # a failed load earlier in the same process must not matter for later loads
        plan = P.sprinkle_faults(prng, plan, 1)
    return u, plan


def commuted(plan, front):
    ili = [op for op in plan if op['op'] == 'add_ili']
    rest = [op for op in plan if op['op'] != 'add_ili']
    return ili + rest if front else rest + ili


def run_one(seed, tier):
    u, plan = build(seed, tier)
    finals = {}

    class S(IliSim):
        def final(self):
            finals['x'] = self.final_ilis()
    r = run_plan(PROP, seed, u, plan, ORACLES, ['final'], sim_cls=S)
    r['nontrivial'] = r['probes'].get('index-over-used-ilis', 0) >= 1
    r['sample'] = plan_summary(u, plan)
    r['replay'] = {'universe': u, 'plan': plan, 'oracles': ORACLES, 'end_checks': []}
    if r['violation'] is None and any(op['op'] == 'add_ili' for op in plan):
        a = finals.get('x')
        front = seed % 2 == 0
        plan2 = commuted(plan, front)
        r2 = run_plan(PROP, seed, u, plan2, ORACLES, ['final'], sim_cls=S)
        if r2['violation'] is not None:
            r['violation'] = r2['violation']
            r['replay']['plan'] = plan2
        else:
            b = finals.get('x')
            if a != b:
                bad = sorted(k for k in set(a) | set(b) if a.get(k) != b.get(k))
                from ..run import Violation
                r['violation'] = Violation(
                    PROP, 'ili-commute', 'final ILI statuses/definitions depend on whether the '
                    'index is loaded before or after the lexicons',
                    {'ili': bad[:5], 'as_planned': {k: a.get(k) for k in bad[:5]},
                     'index_%s' % ('first' if front else 'last'):
                     {k: b.get(k) for k in bad[:5]}, 'commuted_plan': plan2}).to_json()
        r['ops'] += r2['ops']
    return r


def replay(obj):
    return run_plan(PROP, obj['seed'], obj['universe'], obj['plan'], ORACLES, [],
                    sim_cls=IliSim)
