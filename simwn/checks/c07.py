"""C07 — the supply route does not change what gets stored.

Every route of a sampled resource is added to its own copy of one pre-state database under a
seeded directory-enumeration order; the rowid-free logical dump must equal the plain-XML
route's; a second add by another route must change nothing; a base-less extension must be
skipped as a whole; inputs (files, in-memory resource) must be unmodified."""
from __future__ import annotations

import copy
import hashlib
import os

from .. import universe as U, plan as P, observe, compare, xmlout
from ..harness import subseed, plan_summary, enabled_findings
from ..run import Sim, Violation, SimHandler
from ..world import SimBudget
from ..model import Model
from .c06 import Enum

import wn
import wn.lmf
import wn._db

PROP = 'C07'
LEVEL = 'exploration'
RULE = ('one run = seeded universe + 0-3 prior ops + one target resource; the 14 supply routes '
        '(xml, gz, xz, package dir with extras, collection of independent packages, tar/tgz/txz '
        'of file, of package, of collection, lmf.load + add_lexical_resource) are ENUMERATED, '
        'each against a restored copy of the pre-state with seeded Path.iterdir order, then '
        're-added by a different route; plus a base-less extension. one evaluation = one '
        '(resource, route) add. distinct = distinct (resource digest, route); non-trivial = the '
        'route installed at least one lexicon')
ASSUMPTIONS = ['the schedule/fault content is small (directory order, repetition, temp-file '
               'lifecycle); claimed because the property is about I/O paths into a persistent '
               'store and the enumeration of routes is complete']


def sha_tree(path):
    h = {}
    if os.path.isdir(path):
        for root, _, files in os.walk(path):
            for f in files:
                p = os.path.join(root, f)
                h[os.path.relpath(p, path)] = hashlib.sha256(open(p, 'rb').read()).hexdigest()
    else:
        h['.'] = hashlib.sha256(open(path, 'rb').read()).hexdigest()
    return h


def strip_order(d, ili_defs=True):
    d = dict(d)
    d.pop('order', None)
    if not ili_defs:
        sh = dict(d['shared'])
        sh['ilis'] = [[r[0], r[1]] for r in sh['ilis']]
        d['shared'] = sh
    return d


def first_diff(a, b):
    for owner in sorted(set(a['lexicons']) | set(b['lexicons']), key=str):
        ta, tb = a['lexicons'].get(owner), b['lexicons'].get(owner)
        if ta is None or tb is None:
            return {'owner': owner, 'present_in': 'reference' if ta else 'route'}
        for t in sorted(set(ta) | set(tb)):
            if ta.get(t, []) != tb.get(t, []):
                return {'owner': owner, 'table': t,
                        'only_ref': [r for r in ta.get(t, []) if r not in tb.get(t, [])][:3],
                        'only_route': [r for r in tb.get(t, []) if r not in ta.get(t, [])][:3]}
    if a['shared'] != b['shared']:
        return {'shared': {k: [a['shared'][k], b['shared'][k]] for k in a['shared']
                           if a['shared'][k] != b['shared'][k]}}
    return None


def independent_siblings(u, res, m: Model, rng):
    """Other resources that may share a collection with *res*: no lexicon of one extends a
    lexicon of the other, nothing already installed, mutually independent."""
    out = []
    taken = set(res['lexicons'])
    for r in u['resources']:
        if r['name'] == res['name'] or set(r['lexicons']) & taken:
            continue
        ok = True
        for sp in r['lexicons']:
            b = m.idx[sp].base
            if b is not None and b not in r['lexicons'] and b not in m.installed:
                ok = False      # would be skipped or not depending on order: not independent
            if b in taken:
                ok = False
        for sp in taken:
            b = m.idx[sp].base
            if b in r['lexicons']:
                ok = False
        if ok and rng.random() < 0.7:
            out.append(r)
            taken |= set(r['lexicons'])
    return out[:2]


def run_one(seed, tier, explicit=None):
    rng = subseed(seed, 'universe')
    prof = U.Profile.draw(rng)
    prof['max_entries'] = min(prof['max_entries'], 4)
    prof['max_synsets'] = min(prof['max_synsets'], 4)
    prof['p_lexframe_senses'] = rng.choice([0.0, 0.5, 1.0])
    u = explicit['universe'] if explicit else U.generate(rng, prof)
    prng = subseed(seed, 'plan')
    sim = Enum(u, seed, PROP, ['installed'])
    sim.W.shuffle_dirs = True
    m = sim.m
    pre = [op for op in P.history(prng, u, prng.randint(0, 3),
                                  {'routes': False, 'batch': False, 'short_reads': False},
                                  model=Model(u)) if op['op'] != 'checkpoint']
    if explicit:
        pre = explicit['pre']
    stats = {'evals': 0, 'nontrivial': set(), 'routes': {}}
    violation = None
    compare.KNOWN_HITS.clear()
    compare.ENABLED_FINDINGS.clear()
    compare.ENABLED_FINDINGS.update(enabled_findings())
    tgt = None
    sibs = []
    quote = '"'
    try:
        try:
            for op in pre:
                sim.do(op)
            sim.step += 1
            wn._db.connect()
            sim.save()
            cands = [r for r in u['resources'] if sim.m.plan_add(r['lexicons'])] \
                or u['resources']
            tgt = prng.choice(cands)
            sibs = independent_siblings(u, tgt, sim.m, prng)
            quote = prng.choice(['"', "'"])
            if explicit:
                tgt = sim.res[explicit['target']]
                sibs = [sim.res[n] for n in explicit['siblings']]
                quote = explicit['quote']
            data = xmlout.resource_xml(u, tgt, quote=quote)
            sib_data = [(r['name'], xmlout.resource_xml(u, r)) for r in sibs]
            todo = sim.m.plan_add(tgt['lexicons'])
            pre_dump = strip_order(observe.logical_dump(sim.W.dbpath()))

            def fresh_add(route, tag, with_sibs):
                d = sim.W.workdir('c07-%s-%s' % (route, tag))
                path = xmlout.package(route if route != 'mem' else 'xml', d, tgt['name'], data,
                                      siblings=sib_data if with_sibs else None)
                if route in ('xml', 'pkg') and prng.random() < 0.3 and len(data) > 40:
                    # the copy is still in progress when the path is supplied for the first
                    # time (rejected, nothing stored); it then completes IN PLACE - the same
                    # file rewritten, no directory entry changes - and the same path is
                    # supplied again
                    rf = sim._resource_file(path)
                    with open(rf, 'wb') as fh:
                        fh.write(data[:max(1, prng.randrange(1, len(data) - 2))])
                    sim.W.begin_op(budget=sim.budget)
                    sim.call(wn.add, path, progress_handler=None)
                    sim.W.end_op()
                    with open(rf, 'r+b') as fh:
                        fh.seek(0)
                        fh.write(data)
                        fh.truncate()
                    stats['torn_then_repaired'] = stats.get('torn_then_repaired', 0) + 1
                    sim.load()      # (whatever the torn copy did is not judged here: C06/C20)
                before = sha_tree(d)
                sim.W.short_reads = prng.random() < 0.5     # also inside gzip/xz streams
                sim.W.begin_op(budget=sim.budget)
                if route == 'mem':
                    def go():
                        resource = wn.lmf.load(path, progress_handler=SimHandler)
                        snap = copy.deepcopy(resource)
                        wn.add_lexical_resource(resource, progress_handler=SimHandler)
                        if resource != snap:
                            raise Violation(PROP, 'input-modified', 'add_lexical_resource '
                                            'modified the in-memory resource',
                                            {'route': route, 'diff': mem_diff(snap, resource)})
                    _, exc = sim.call(go)
                elif route in ('dl-url', 'dl-project'):
                    sim._dl_spec = tgt['lexicons'][0]
                    _, exc = sim.call(sim.raw_download, path, route)
                else:
                    _, exc = sim.call(wn.add, path, progress_handler=SimHandler)
                sim.W.end_op()
                sim.W.short_reads = False
                if isinstance(exc, Violation):
                    raise exc
                if exc is not None:
                    raise Violation(PROP, 'route-raises', 'add via route %s raised %s'
                                    % (route.split('-')[-1] if False else route,
                                       type(exc).__name__),
                                    {'route': route, 'exc': repr(exc),
                                     'tb': getattr(exc, 'tb_text', None)})
                after = sha_tree(d)
                if before != after:
                    raise Violation(PROP, 'input-modified', 'input files changed by add',
                                    {'route': route,
                                     'changed': [k for k in set(before) | set(after)
                                                 if before.get(k) != after.get(k)][:5]})
                left = [f for f in os.listdir(os.path.dirname(sim.W.root) or '/tmp') if False]
                return path

            # reference: plain XML (target, then siblings in name order)
            sim.load()
            fresh_add('xml', 'ref', False)
            sim.W.restart()
            ref = strip_order(observe.logical_dump(sim.W.dbpath()))
            sim.m.add_resource(tgt['lexicons'])
            sim.check_installed()
            ref_col = None
            if sibs:
                for r in sibs:
                    p = xmlout.package('xml', sim.W.workdir('c07-ref-sib'), r['name'],
                                       xmlout.resource_xml(u, r))
                    wn.add(p, progress_handler=None)
                sim.W.restart()
                ref_col = strip_order(observe.logical_dump(sim.W.dbpath()), ili_defs=False)
            routes = list(xmlout.ROUTES)
            for route in (explicit['routes'] if explicit and explicit.get('routes') else routes):
                is_col = route == 'col' or route.endswith('-col')
                sim.load()
                fresh_add(route, 'a', is_col)
                sim.W.restart()
                sim.m.add_resource(tgt['lexicons'])
                if is_col:
                    for r in sibs:
                        sim.m.add_resource(r['lexicons'])
                sim.check_installed()       # installed set + lookup tables (nothing leaks)
                stats['evals'] += 1
                stats['routes'][route] = stats['routes'].get(route, 0) + 1
                if todo:
                    stats['nontrivial'].add((tgt['name'], route))
                got = strip_order(observe.logical_dump(sim.W.dbpath()), ili_defs=not is_col)
                sim.W.log(route=route, state=observe.digest(got))
                want = (ref_col if (is_col and ref_col is not None)
                        else strip_order_again(ref, not is_col))
                d = first_diff(want, got)
                if d:
                    raise Violation(PROP, 'route-differs', 'database content after route %s '
                                    'differs from the plain-XML route' % route,
                                    {'route': route, 'diff': d, 'resource': tgt['lexicons'],
                                     'siblings': [r['name'] for r in sibs] if is_col else []})
                # repetition by another route: nothing changes, nothing raised
                other = prng.choice([r for r in routes if r != route
                                     and not (r == 'col' or r.endswith('-col'))])
                fresh_add(other, 'b-' + route, False)
                sim.W.restart()
                stats['evals'] += 1
                again = strip_order(observe.logical_dump(sim.W.dbpath()), ili_defs=not is_col)
                d = first_diff(got, again)
                if d and sim.m.plan_add(tgt['lexicons']):
                    d = None     # an extension skipped the first time (its base came in the
                    #              same file) is legitimately added by the second call
                if d:
                    raise Violation(PROP, 'readd-changes', 'adding already installed lexicons '
                                    'again (route %s after %s) changed the database'
                                    % (other, route), {'diff': d})
            # base-less extension: skipped as a whole
            sim.load()
            for r in u['resources']:
                exts = [sp for sp in r['lexicons'] if sim.m.idx[sp].base is not None]
                if len(exts) != len(r['lexicons']):
                    continue
                if any(sim.snap_model.idx[sp].base in sim.snap_model.installed for sp in exts):
                    continue
                d = sim.W.workdir('c07-baseless')
                path = xmlout.package(prng.choice(['xml', 'gz', 'pkg', 'mem']) if False
                                      else 'xml', d, r['name'], xmlout.resource_xml(u, r))
                sim.W.begin_op(budget=sim.budget)
                _, exc = sim.call(wn.add, path, progress_handler=SimHandler)
                sim.W.end_op()
                stats['evals'] += 1
                stats['routes']['baseless-ext'] = stats['routes'].get('baseless-ext', 0) + 1
                if exc is not None:
                    raise Violation(PROP, 'baseless-raises', 'adding an extension whose base '
                                    'is not installed raised %s' % type(exc).__name__,
                                    {'exc': repr(exc), 'resource': r['lexicons']})
                sim.W.restart()
                now = strip_order(observe.logical_dump(sim.W.dbpath()))
                d = first_diff(pre_dump, now)
                if d:
                    raise Violation(PROP, 'baseless-stored', 'an extension whose base is not '
                                    'installed left rows behind', {'diff': d})
                break
        except Violation as v:
            violation = v.to_json()
        except SimBudget as b:
            violation = Violation(PROP, 'termination', 'statement budget exhausted',
                                  {'msg': str(b)}).to_json()
        return {
            'seed': seed, 'violation': violation, 'digest': sim.W.event_digest(),
            'ops': stats['evals'], 'faults': {}, 'states': [],
            'probes': dict(stats['routes'], **{'torn-then-repaired-in-place':
                                               stats.get('torn_then_repaired', 0)}),
            'cells': [], 'evals': stats['evals'], 'nt': len(stats['nontrivial']),
            'known_hits': dict(compare.KNOWN_HITS), 'nontrivial': bool(stats['nontrivial']),
            'sample': {'pre_history': pre, 'target': tgt and tgt['lexicons'],
                       'routes': list(stats['routes']),
                       'universe': plan_summary(u, [])['lexicons']},
            'replay': {'universe': u, 'pre': pre, 'target': tgt and tgt['name'],
                       'siblings': [r['name'] for r in sibs] if tgt else [],
                       'quote': quote if tgt else '"',
                       'routes': ([violation['detail']['route']]
                                  if violation and (violation.get('detail') or {}).get('route')
                                  in xmlout.ROUTES else None)},
        }
    finally:
        sim.close()


def strip_order_again(d, ili_defs):
    return strip_order(dict(d, order=[]), ili_defs=ili_defs)


def mem_diff(a, b):
    out = []
    for la, lb in zip(a['lexicons'], b['lexicons']):
        for k in set(la) | set(lb):
            if la.get(k) != lb.get(k):
                out.append({'lexicon': la['id'], 'key': k,
                            'before': str(la.get(k))[:200], 'after': str(lb.get(k))[:200]})
    return out[:4]


def replay(obj):
    return run_one(obj['seed'], 'quick', explicit=obj)


def coverage_extra(results):
    return {'evaluations': max(1, sum(r.get('evals', 0) for r in results)),
            'distinct_nontrivial': sum(r.get('nt', 0) for r in results),
            'routes_enumerated': xmlout.ROUTES,
            'exhaustive_over': 'supply routes of each sampled resource'}
