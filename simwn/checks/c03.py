"""C03 — exporting a database and re-importing it preserves the lexicons.

The export is a snapshot of a slice of a shared store taken on the *primary* node; the
re-import is a restore on an empty *replica* node.  What the simulator varies: what else is
installed when the slice is cut (extensions contributing rows to the exported base, other
versions sharing ids, lexicons sharing ILIs), the path the store took, export version."""
from __future__ import annotations

import os

from .. import universe as U, plan as P, observe, compare, xmlout
from ..compare import Bag, BagKnownExtras, SetOf, PrefixThenSet, Any, canon
from ..harness import subseed, run_plan, plan_summary
from ..model import Model, norm_text, text_of, meta_of, spec_of, K
from ..run import Sim, generalize

import wn
import wn.lmf

PROP = 'C03'
LEVEL = 'exploration'
ORACLES = ['installed']
F_SUBCAT = 'C03-export-1.1-loses-sense-frame-links'
F_EXMETA = 'C03-export-drops-example-metadata'
F_ANNOT = 'C03-export-includes-extension-form-annotations'
F_PROPOSED = 'C03-export-loses-proposed-ili-without-definition'
RULE_HUGE = ('thorough tier: ~5 of the 50000 runs use a lexicon of 33000 synsets (more rows than '
             'SQLite has host parameters) with export + load + projection only. ')
RULE = ('one run = seeded universe + seeded history of 3-8 ops with 1-2 export/re-import steps '
        'at random points: wn.export of 1-3 installed non-extension lexicons as LMF 1.0/1.1/'
        '1.2/1.3 on the primary node (while extensions of them, other versions sharing their '
        'identifiers and lexicons sharing their ILIs are installed); (a) lmf.load of the file '
        'compared field by field with the model document projected onto what that version can '
        'express (entries, forms, tags, pronunciations, senses, synsets, ILIs incl. proposed, '
        'every definition with language/source sense, examples, counts, relations with '
        'metadata, sense-frame links, requires, metadata; extension contributions must be '
        'absent); (b) wn.add of the file on an empty replica node and comparison of the '
        'per-lexicon public-API image with the primary\'s. identifier clashes => wn.Error '
        'expected. one evaluation = one export; distinct = (store digest, specs, version); '
        'non-trivial = exported lexicon has >=1 entry and >=1 synset. ' + RULE_HUGE)


def mrel(r):
    return [r['relType'], r['target'], meta_of(r)]


def xtext(elem, v):
    """Text content as an export in version *v* can carry it: only WN-LMF 1.3 can say that
    white space is significant (xml:space); elsewhere it comes back normalised."""
    return text_of(elem) if v == '1.3' else norm_text(elem['text'])


def mex(e, v):
    return [xtext(e, v), e.get('language'), meta_of(e)]


def project(m: Model, sp, v, annotated):
    """Canonical expectation for lexicon *sp* exported as version *v* (own content only)."""
    doc = m.docs[sp]
    ix = m.idx[sp]
    ge11 = v != '1.0'
    out = {
        'attrs': {k: doc.get(k) for k in ('id', 'label', 'language', 'email', 'license',
                                          'version', 'url', 'citation')},
        'meta': meta_of(doc), 'entries': {}, 'senses': {}, 'synsets': {},
    }
    if ge11:
        out['attrs']['logo'] = doc.get('logo')
        out['requires'] = Bag([[d['id'], d['version'], d.get('url')]
                               for d in doc.get('requires', [])])
    links = []
    frames = set()
    senses_of = {}
    for s_, _e in ix.local_senses():
        senses_of.setdefault(s_['synset'], []).append(s_['id'])
    for e in ix.local_entries():
        lem = e['lemma']
        key = K(sp, e['id'])
        mk = (lambda items: BagKnownExtras(items, F_ANNOT)) if key in annotated else Bag

        def fimg(f, lemma=False):
            o = {'form': f['writtenForm'], 'script': f.get('script'),
                 'tags': mk([[norm_text(t['text']), t['category']] for t in f.get('tags', [])])}
            if ge11:
                o['prons'] = mk([[norm_text(p['text']), p.get('variety'), p.get('notation'),
                                  p.get('phonemic', True), p.get('audio')]
                                 for p in f.get('pronunciations', [])])
                if not lemma:
                    o['id'] = f.get('id')
            return o
        out['entries'][e['id']] = {
            'pos': lem['partOfSpeech'], 'lemma': fimg(lem, True),
            'forms': [fimg(f) for f in e.get('forms', [])],
            'senses': [s['id'] for s in e.get('senses', [])],
            'meta': meta_of(e),
        }
        for s in e.get('senses', []):
            out['senses'][s['id']] = {
                'synset': s['synset'],
                'relations': SetOf([mrel(r) for r in s.get('relations', []) or []]),
                'examples': Bag([mex(x, v) for x in s.get('examples', []) or []]),
                'counts': Bag([[c['value'], meta_of(c)] for c in s.get('counts', []) or []]),
                'lexicalized': s.get('lexicalized', True),
                'adjposition': s.get('adjposition'),
                'meta': meta_of(s),
            }
            for fr in ix.frames_of(s['id']):
                links.append([fr, s['id']])
    for fr in doc.get('frames', []):
        frames.add(fr['subcategorizationFrame'])
    for e in ix.local_entries():
        for fr in e.get('frames', []) or []:
            frames.add(fr['subcategorizationFrame'])
    out['frame_links'] = SetOf(links)
    for ss in ix.local_synsets():
        ili = ss.get('ili') or ''
        o = {
            'ili': ili, 'pos': ss.get('partOfSpeech'),
            'definitions': Bag([[xtext(d, v), d.get('language'), d.get('sourceSense'),
                                 meta_of(d)] for d in ss.get('definitions', []) or []]),
            'relations': SetOf([mrel(r) for r in ss.get('relations', []) or []]),
            'examples': Bag([mex(x, v) for x in ss.get('examples', []) or []]),
            'lexicalized': ss.get('lexicalized', True),
            'meta': meta_of(ss),
        }
        d = ss.get('ili_definition')
        if ili == 'in':
            o['ili_definition'] = [xtext(d, v), meta_of(d)] if d else None
        else:
            # the shared ILI inventory is set aside: a definition the document gives for an
            # existing ILI may or may not come back - but the export must not invent one
            o['ili_definition'] = Any() if d else None
        if ge11:
            o['lexfile'] = ss.get('lexfile')
            declared = list(ss.get('members', []) or [])
            others = [x for x in senses_of.get(ss['id'], []) if x not in declared]
            o['members'] = PrefixThenSet(declared, others)
        out['synsets'][ss['id']] = o
    return out


def lmeta(x):
    m = x.get('meta')
    return dict(m) if m else {}


def canon_loaded(lex, v):
    """Canonical picture of one lexicon of a loaded (exported) resource."""
    ge11 = v != '1.0'
    out = {
        'attrs': {k: (lex.get(k) if k in ('id', 'version') else (lex.get(k) or None))
                  for k in ('id', 'label', 'language', 'email', 'license', 'version', 'url',
                            'citation')},
        'meta': lmeta(lex), 'entries': {}, 'senses': {}, 'synsets': {},
    }
    if ge11:
        out['attrs']['logo'] = lex.get('logo') or None
        out['requires'] = [[d['id'], d['version'], d.get('url') or None]
                           for d in lex.get('requires', [])]
    links = []
    byid = {}
    for fr in lex.get('frames', []) or []:
        if fr.get('id'):
            byid[fr['id']] = fr['subcategorizationFrame']
        for sid in fr.get('senses', []) or []:
            links.append([fr['subcategorizationFrame'], sid])
    for e in lex.get('entries', []):
        lem = e['lemma']

        def fimg(f, lemma=False):
            o = {'form': f['writtenForm'], 'script': f.get('script') or None,
                 'tags': [[t['text'], t['category']] for t in f.get('tags', []) or []]}
            if ge11:
                o['prons'] = [[p['text'], p.get('variety') or None, p.get('notation') or None,
                               p.get('phonemic', True), p.get('audio') or None]
                              for p in f.get('pronunciations', []) or []]
                if not lemma:
                    o['id'] = f.get('id') or None
            return o
        out['entries'][e['id']] = {
            'pos': lem['partOfSpeech'], 'lemma': fimg(lem, True),
            'forms': [fimg(f) for f in e.get('forms', []) or []],
            'senses': [s['id'] for s in e.get('senses', []) or []],
            'meta': lmeta(e),
        }
        allids = [s['id'] for s in e.get('senses', []) or []]
        for fr in e.get('frames', []) or []:
            for sid in (fr.get('senses') or allids):
                links.append([fr['subcategorizationFrame'], sid])
        for s in e.get('senses', []) or []:
            out['senses'][s['id']] = {
                'synset': s['synset'],
                'relations': [[r['relType'], r['target'], lmeta(r)]
                              for r in s.get('relations', []) or []],
                'examples': [[x['text'], x.get('language') or None, lmeta(x)]
                             for x in s.get('examples', []) or []],
                'counts': [[c['value'], lmeta(c)] for c in s.get('counts', []) or []],
                'lexicalized': s.get('lexicalized', True),
                'adjposition': s.get('adjposition') or None,
                'meta': lmeta(s),
            }
            for fid in s.get('subcat', []) or []:
                links.append([byid.get(fid, '?' + fid), s['id']])
    out['frame_links'] = links
    for ss in lex.get('synsets', []) or []:
        o = {
            'ili': ss.get('ili') or '', 'pos': ss.get('partOfSpeech') or None,
            'definitions': [[d['text'], d.get('language') or None, d.get('sourceSense') or None,
                             lmeta(d)] for d in ss.get('definitions', []) or []],
            'relations': [[r['relType'], r['target'], lmeta(r)]
                          for r in ss.get('relations', []) or []],
            'examples': [[x['text'], x.get('language') or None, lmeta(x)]
                         for x in ss.get('examples', []) or []],
            'lexicalized': ss.get('lexicalized', True),
            'meta': lmeta(ss),
        }
        d = ss.get('ili_definition')
        o['ili_definition'] = [d['text'], lmeta(d)] if d else None
        if ge11:
            o['lexfile'] = ss.get('lexfile') or None
            o['members'] = list(ss.get('members', []) or [])
        out['synsets'][ss['id']] = o
    return out


class ExportSim(Sim):
    evals = 0
    nt = 0

    def op_export_reimport(self, op):
        m = self.m
        specs = [sp for sp in op['specs'] if sp in m.installed and m.idx[sp].base is None]
        if not specs:
            return
        v = op['version']
        W = self.W
        # Lexicon objects by enumeration (a specifier cannot express every id:version)
        allx = {lx.specifier(): lx for lx in wn.lexicons()}
        lexs = [allx[sp] for sp in specs if sp in allx]
        if sorted(lx.specifier() for lx in lexs) != sorted(specs):
            self.probe('selection-differs(C08)')
            return
        d = W.workdir('export-%d' % self.step)
        path = os.path.join(d, 'export.xml')
        # documented precondition: identifiers unique across the exported lexicons
        # (across lexicons; an entry and a synset of ONE lexicon may be numbered alike)
        ids = []
        for sp in specs:
            ix = m.idx[sp]
            ids += sorted({m.docs[sp]['id']} | {e['id'] for e in ix.local_entries()}
                          | {s['id'] for s, _ in ix.local_senses()}
                          | {s['id'] for s in ix.local_synsets()})
        clash = len(ids) != len(set(ids))
        W.begin_op(budget=self.budget * 5)
        _, exc = self.call(wn.export, lexs, path, version=v)
        W.end_op()
        ExportSim.evals += 1
        ctx = {'specs': specs, 'version': v, 'installed': list(m.installed)}
        if clash:
            if not isinstance(exc, wn.Error):
                raise self.violation('clash', 'export of lexicons with clashing identifiers '
                                     'did not raise wn.Error', dict(ctx, exc=repr(exc)))
            self.probe('export-clash-refused')
            return
        if exc is not None:
            raise self.violation('export-raises', 'export raised %s' % type(exc).__name__,
                                 dict(ctx, exc=repr(exc), tb=getattr(exc, 'tb_text', None)))
        if any(m.idx[sp].local_entries() and m.idx[sp].local_synsets() for sp in specs):
            ExportSim.nt += 1
        # (a) the loaded export vs the model documents
        res, exc = self.call(wn.lmf.load, path, progress_handler=None)
        if exc is not None:
            raise self.violation('export-unreadable', 'the exported file cannot be loaded: %s'
                                 % type(exc).__name__, dict(ctx, exc=repr(exc)))
        if res['lmf_version'] != v or [spec_of(l) for l in res['lexicons']] != specs:
            raise self.violation('export-lexicons', 'exported file holds other lexicons or '
                                 'another version than requested',
                                 dict(ctx, got=[spec_of(l) for l in res['lexicons']],
                                      lmf=res['lmf_version']))
        for sp, lex in zip(specs, res['lexicons']):
            annotated = set(m.residue)
            for x in m.extensions_of(sp, depth=1):
                annotated |= m.annotated_entries(x)
            exp = project(m, sp, v, annotated)
            obs = canon_loaded(lex, v)
            self.tolerate_known(exp, obs, v, sp)
            dd = compare.diff(exp, obs)
            if dd:
                p, msg, detail = dd[0]
                parts = p.split('/')
                gp = '/'.join(['*' if i == 2 and parts[1] in ('entries', 'senses', 'synsets')
                               else x for i, x in enumerate(parts)])
                import re
                gp = re.sub(r'\[\d+\]', '[*]', gp)
                raise self.violation('export-content', 'loaded export differs from the added '
                                     'lexicon: %s: %s' % (gp, msg),
                                     dict(ctx, lexicon=sp, path=p, diff=detail,
                                          more=[x[0] for x in dd[1:5]]))
        # (b) re-import on an empty replica node
        if op.get('light'):
            return         # (a lexicon of tens of thousands of synsets: part (a) only)
        prim = {}
        for sp in specs:
            if ' ' in sp:
                continue       # not selectable by specifier: only part (a) applies
            w = wn.Wordnet(lexicon=sp, expand='')
            prim[sp] = observe.image(w)
        cur = W.cur
        W.restore(None, 'replica')
        W.use('replica')
        try:
            W.begin_op(budget=self.budget * 5)
            _, exc = self.call(wn.add, path, progress_handler=None)
            W.end_op()
            if exc is not None:
                raise self.violation('reimport-raises', 'adding the exported file to an empty '
                                     'database raised %s' % type(exc).__name__,
                                     dict(ctx, exc=repr(exc)))
            for sp in specs:
                if sp not in prim:
                    continue
                w = wn.Wordnet(lexicon=sp, expand='')
                rep = observe.image(w)
                a, b = self.api_projection(prim[sp], v), self.api_projection(rep, v)
                if a != b:
                    dd = compare.diff(a, b)
                    p, msg, detail = dd[0] if dd else ('?', 'differs', None)
                    if self.api_known(p, v):
                        continue
                    raise self.violation('reimport-differs', 'database rebuilt from the export '
                                         'is observably different: %s: %s'
                                         % (generalize(p), msg),
                                         dict(ctx, lexicon=sp, path=p, diff=detail))
        finally:
            W.restart()
            W.use(cur)

    # -- known findings (inline, narrow) ----------------------------------------------------
    def tolerate_known(self, exp, obs, v, sp):
        en = compare.ENABLED_FINDINGS
        if v != '1.0' and F_SUBCAT in en:
            want = exp['frame_links'].items
            if want and not obs['frame_links']:
                compare.note_known(F_SUBCAT)
                exp['frame_links'] = Any()
        if F_EXMETA in en:
            for part in ('senses', 'synsets'):
                for k, e in exp[part].items():
                    o = obs[part].get(k)
                    if o is None:
                        continue
                    if any(x[2] for x in e['examples'].items) and \
                            sorted(canon(x[:2]) for x in e['examples'].items) == \
                            sorted(canon(x[:2]) for x in o['examples']) and \
                            not any(x[2] for x in o['examples']):
                        compare.note_known(F_EXMETA)
                        e['examples'] = Bag([[x[0], x[1], {}] for x in e['examples'].items])
        if F_PROPOSED in en:
            for k, e in exp['synsets'].items():
                o = obs['synsets'].get(k)
                if o and e['ili'] == 'in' and e['ili_definition'] is None and o['ili'] == '':
                    compare.note_known(F_PROPOSED)
                    e['ili'] = ''

    def api_projection(self, img, v):
        img = {k: dict(x) for k, x in img.items() if k != 'lexicons'}
        out = {}
        for part in ('words', 'senses', 'synsets'):
            out[part] = {}
            for k, x in img[part].items():
                x = dict(x)
                if v != '1.3' and part != 'words':
                    # (white space that is content cannot be expressed below WN-LMF 1.3)
                    x['examples'] = [norm_text(t) for t in x['examples']]
                    if part == 'synsets' and x.get('definition') is not None:
                        x['definition'] = norm_text(x['definition'])
                    if part == 'synsets' and isinstance(x.get('ili'), dict) \
                            and isinstance(x['ili'].get('definition'), str):
                        x['ili'] = dict(x['ili'], definition=norm_text(x['ili']['definition']))
                if part == 'senses':
                    x['examples'] = sorted(x['examples'])
                    x['counts'] = sorted(map(canon, x['counts']))
                    x['frames'] = sorted(set(x['frames']))
                    x['relations'] = {a: sorted(map(canon, b))
                                      for a, b in x['relations'].items()}
                if part == 'synsets':
                    x['examples'] = sorted(x['examples'])
                    x['relations'] = {a: sorted(map(canon, b))
                                      for a, b in x['relations'].items()}
                    if v == '1.0':
                        x['members'] = sorted(x['members'])
                        x['lexfile'] = None
                    if isinstance(x.get('ili'), dict) and x['ili'].get('id') is None:
                        pass
                if part == 'words':
                    forms = []
                    for f in x['forms']:
                        f = dict(f)
                        f['tags'] = sorted(map(canon, f['tags']))
                        f['prons'] = sorted(map(canon, f['prons'])) if v != '1.0' else []
                        if v == '1.0':
                            f['id'] = None
                        forms.append(f)
                    x['forms'] = forms
                out[part][k] = x
        return out

    def api_known(self, path, v):
        en = compare.ENABLED_FINDINGS
        if path.endswith('/frames') and v != '1.0' and F_SUBCAT in en:
            compare.note_known(F_SUBCAT)
            return True
        if path.endswith('/ili') and F_PROPOSED in en:
            compare.note_known(F_PROPOSED)
            return True
        return False


def build_big(seed):
    rng = subseed(seed, 'universe-big')
    u = U.generate_big(rng)
    v = rng.choice(['1.0', '1.1', '1.3'])
    plan = [{'op': 'add', 'res': 'r0'}, {'op': 'add', 'res': 'r1'},
            {'op': 'export_reimport', 'specs': ['bige:1'], 'version': v},
            {'op': 'export_reimport', 'specs': ['bige:1', 'bigl:1'],
             'version': rng.choice(['1.0', '1.2'])}]
    return u, plan


def build(seed):
    if subseed(seed, 'big').random() < 0.004:
        return build_big(seed)     # > 999 synsets per exported lexicon
    rng = subseed(seed, 'universe')
    prof = U.Profile.draw(rng)
    prof['max_entries'] = min(prof['max_entries'], 4)
    prof['max_synsets'] = min(prof['max_synsets'], 4)
    prof['n_ext'] = rng.choice([0, 1, 2])
    prof['p_space_version'] = rng.choice([0.0, 0.0, 0.5])
    prof['p_second_version'] = rng.choice([0.4, 0.9])
    u = U.generate(rng, prof)
    prng = subseed(seed, 'plan')
    swarm = {'routes': prng.random() < 0.3, 'batch': prng.random() < 0.3, 'short_reads': False}
    m = Model(u)
    plan = []
    hist = [op for op in P.history(prng, u, prng.randint(3, 8), swarm, model=m)
            if op['op'] != 'checkpoint']
    m = Model(u)
    for op in hist:
        plan.append(op)
        if op['op'] == 'add':
            m.add_resource(next(r for r in u['resources'] if r['name'] == op['res'])['lexicons'])
        elif op['op'] == 'remove':
            m.remove_specs(m.select(op['spec']))
        bases = [sp for sp in m.installed if m.idx[sp].base is None]
        if bases and prng.random() < 0.4:
            k = prng.choice([1, 1, 1, 2, 3])
            plan.append({'op': 'export_reimport',
                         'specs': prng.sample(bases, min(k, len(bases))),
                         'version': prng.choice(['1.0', '1.1', '1.2', '1.3'])})
    bases = [sp for sp in m.installed if m.idx[sp].base is None]
    if bases:
        plan.append({'op': 'export_reimport', 'specs': [prng.choice(bases)],
                     'version': prng.choice(['1.0', '1.1', '1.3'])})
    return u, plan


def build_huge(seed):
    """A lexicon of the size of real wordnets (33000 synsets: more rows than SQLite has host
    parameters, 32766); export, load of the export and projection only."""
    rng = subseed(seed, 'universe-huge')
    u = U.generate_big(rng, n=33000)
    plan = [{'op': 'add', 'res': 'r0'},
            {'op': 'export_reimport', 'specs': ['bige:1'],
             'version': rng.choice(['1.0', '1.1', '1.3']), 'light': True}]
    return u, plan


def is_huge(seed, tier):
    # thorough tier only (one such run takes about a minute): ~5 of 50000 runs
    return tier == 'thorough' and seed % 9973 == 5


def run_one(seed, tier, huge=None):
    if huge or (huge is None and is_huge(seed, tier)):
        u, plan = build_huge(seed)
        ExportSim.evals = 0
        ExportSim.nt = 0
        r = run_plan(PROP, seed, u, plan, [], sim_cls=ExportSim)
        r['evals'] = ExportSim.evals
        r['nt'] = ExportSim.nt
        r['nontrivial'] = True
        r['probes']['huge-lexicon'] = 1
        r['sample'] = {'huge': 33000}
        r['replay'] = {'huge': True}
        return r
    u, plan = build(seed)
    ExportSim.evals = 0
    ExportSim.nt = 0
    r = run_plan(PROP, seed, u, plan, ORACLES, sim_cls=ExportSim)
    r['evals'] = ExportSim.evals
    r['nt'] = ExportSim.nt
    r['nontrivial'] = ExportSim.nt > 0
    r['sample'] = plan_summary(u, plan)
    r['replay'] = {'universe': u, 'plan': plan, 'oracles': ORACLES, 'end_checks': []}
    return r


def replay(obj):
    if obj.get('huge'):
        return run_one(obj['seed'], 'thorough', huge=True)
    return run_plan(PROP, obj['seed'], obj['universe'], obj['plan'], ORACLES, sim_cls=ExportSim)


def coverage_extra(results):
    return {'evaluations': max(1, sum(r.get('evals', 0) for r in results)),
            'distinct_nontrivial': sum(r.get('nt', 0) for r in results)}
