"""C04 — see DESIGN.md section 4.C04 and simwn/sessions.py."""
from __future__ import annotations

from .. import universe as U, plan as P
from ..harness import subseed, run_plan, plan_summary
from ..sessions import SessionSim

PROP = 'C04'
LEVEL = 'exploration'
ORACLES = ['installed']
RULE = ("one run = seeded universe (extensions, several versions sharing every identifier, shared ILIs, overlapping forms, dependencies) + seeded history of 4-9 mutator ops; after every op up to 4 seeded client sessions (default mode, family, base without its extension, extension alone, id:*, lang, random pairs; expand default/''/explicit/'*') are opened: membership oracle over every word/sense/synset/ILI reached directly, by navigation, as relation target, by closure and by form search; up to 4 sessions are RETAINED and, after each later op that touches no lexicon of their S or expand set, the canonical transcript of the retained object and of a freshly constructed one must be identical to the one recorded before. distinct = event digests; non-trivial = at least one before/after transcript comparison happened")
SESSION_ORACLES = tuple('membership,invariance'.split(','))


class S(SessionSim):
    session_oracles = SESSION_ORACLES
    configs_per_state = 4


def profile(rng):
    prof = U.Profile.draw(rng)
    prof['max_entries'] = min(prof['max_entries'], 4)
    prof['max_synsets'] = min(prof['max_synsets'], 4)
    prof['n_ili_files'] = min(prof['n_ili_files'], 1)
    prof['n_ext'] = rng.choice([1, 1, 2])
    prof['p_requires'] = rng.choice([0.0, 0.5, 1.0])
    return prof


def build(seed):
    rng = subseed(seed, 'universe')
    prof = profile(rng)
    rerelease = subseed(seed, 'rerelease').random() < 0.25
    if rerelease:
        prof['p_rerelease'] = 0.7
    u = U.generate(rng, prof)
    prng = subseed(seed, 'plan')
    swarm = {'routes': prng.random() < 0.6, 'batch': prng.random() < 0.3, 'short_reads': False,
             'external': prng.random() < 0.1, 'rerelease': rerelease}
    plan = [op for op in P.history(prng, u, prng.randint(4, 9), swarm)
            if op['op'] != 'checkpoint']
    if prng.random() < 0.3:
        # a failed add/remove earlier in the history must not matter either
        plan = P.sprinkle_faults(prng, plan, 1)
    return u, plan


def run_one(seed, tier):
    u, plan = build(seed)
    SessionSim.evals = 0
    r = run_plan(PROP, seed, u, plan, ORACLES, sim_cls=S)
    r['evals'] = SessionSim.evals
    r['nontrivial'] = r['probes'].get('invariance-compared', 0) >= 1
    r['sample'] = plan_summary(u, plan)
    r['replay'] = {'universe': u, 'plan': plan, 'oracles': ORACLES, 'end_checks': []}
    return r


def replay(obj):
    return run_plan(PROP, obj['seed'], obj['universe'], obj['plan'], ORACLES, sim_cls=S)


def coverage_extra(results):
    return {'session_evaluations': sum(r.get('evals', 0) for r in results)}
