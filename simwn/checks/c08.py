"""C08 — lexicon specifiers and language codes select exactly the documented lexicons."""
from __future__ import annotations

import warnings

from .. import universe as U, plan as P, observe
from ..harness import subseed, run_plan, plan_summary
from ..run import Sim
from ..model import Model

import wn

PROP = 'C08'
LEVEL = 'exploration'
ORACLES = ['installed', 'specifiers']
RULE = ('one run = seeded universe of small lexicons (ids a/ab/a-b/abc/b/zz so that ids are '
        'prefixes of others, 1-3 versions per id from {1, 1.0, 2, 1.0+x, 2020-rc.1, 10}, mixed '
        'languages) + a seeded history of adds/removes/re-adds that changes which version is '
        'the most recently added, in 30% of the runs spread over two data directories between '
        'which wn.config.data_directory is switched (with and without a process restart); '
        'after every op a seeded battery of ~40 specifier strings '
        '(*, id:version, id:*, *:version, bare ids, globs with * ? [..], absent ids/versions, '
        'space-separated lists mixing all of these) x lang in {None, each language, absent} is '
        'evaluated through wn.lexicons(), wn.Wordnet() and (on a database copy) wn.remove() '
        'and compared, as a set, with the model of the documented table; 0.2% of the runs install '
        '257-513 tiny lexicons (judged when all are installed and after one removal). one evaluation = one '
        '(store state, specifier, lang, entry point). distinct = distinct (installed list, '
        'specifier, lang); non-trivial = >=2 versions of some id installed')


class SpecSim(Sim):
    evals = 0
    nt = set()

    def after_op(self, op):
        super().after_op(op)
        many = self.u.get('profile', {}).get('many_lex')
        if many and len(self.m.installed) not in (many, many - 1):
            return                 # the world of several hundred lexicons is judged when full
        if 'specifiers' in self.oracles:
            self.check_specifiers()

    def battery(self, rng):
        m = self.m
        docs = self.u['lexicons']
        ids = sorted({d['id'] for d in docs.values()})
        vers = sorted({d['version'] for d in docs.values()})
        inst = list(m.installed)
        atoms = ['*', '*:*']
        atoms += inst
        atoms += ['%s:*' % i for i in ids]
        atoms += ['*:%s' % v for v in vers]
        atoms += ids + ['nope']
        # a specifier is matched against id:version, never against the language
        atoms += sorted({d['language'] for d in docs.values()}) + ['en', 'EN', 'xx']
        atoms += ['nope:1', '%s:9.9' % ids[0], 'a*', 'a*:*', '*:1*', '?:*', 'a?:*', '[ab]*:*',
                  'a[^b]*:*', '*b:*', '??:*', 'a?', '[a-b]', 'a-*', '*:*.*', '*:?', '[!a]*:*',
                  '[^z]*:*', 'a[!-]*:*', '*:[^1]*', '[]a]*:*']
        atoms = sorted(set(atoms))
        # a core asked in every store state (the same request must follow the store, whoever
        # changed it) + a seeded sample of the rest
        core = ['*'] + ids[:3] + ['%s:*' % i for i in ids[:2]]
        specs = core + rng.sample(atoms, min(len(atoms), 18))
        for _ in range(14):
            k = rng.choice([2, 2, 3])
            specs.append(' '.join(rng.choice(atoms) for _ in range(k)))
        # white space separates specifiers; at the ends of the request it separates nothing
        a0 = rng.choice(atoms)
        specs += [a0 + ' ', ' ' + a0, a0 + '\n', '\t%s  %s ' % (a0, rng.choice(atoms))]
        langs = [None, None] + sorted({d['language'] for d in docs.values()}) + ['xx', 'EN', 'en']
        return [(s, rng.choice(langs)) for s in specs]

    def check_specifiers(self):
        import random
        rng = random.Random('%s:battery:%d' % (self.seed, self.step))
        m = self.m
        multi = len({self.u['lexicons'][s]['id'] for s in m.installed}) < len(m.installed)
        state = observe.digest(m.installed)
        self.W.begin_op(budget=self.budget * 10)
        try:
            for spec, lang in self.battery(rng):
                want = sorted(m.select(spec, lang))
                tags = self.tags_for(spec, lang)
                # wn.lexicons()
                got, exc = self.call(lambda: sorted({lx.specifier() for lx in
                                                     wn.lexicons(lexicon=spec, lang=lang)}))
                SpecSim.evals += 1
                if multi:
                    SpecSim.nt.add((state, spec, lang))
                if exc is not None:
                    raise self.violation('lexicons-raises', 'wn.lexicons() raised %s'
                                         % type(exc).__name__,
                                         {'spec': spec, 'lang': lang, 'exc': repr(exc)}, tags)
                if got != want:
                    raise self.violation(
                        'selection', 'wn.lexicons(lexicon=..., lang=...) selects other lexicons '
                        'than documented (%s)' % self.classify(spec, got, want),
                        {'spec': spec, 'lang': lang, 'observed': got, 'expected': want,
                         'installed_in_add_order': list(m.installed)}, tags)
                # wn.Wordnet()
                w, exc = self.call(wn.Wordnet, lexicon=spec, lang=lang)
                SpecSim.evals += 1
                if not want:
                    if spec.strip() == '*' and lang is None:
                        pass    # "all lexicons" of an empty database: not a specific request
                    elif not isinstance(exc, wn.Error):
                        raise self.violation('nomatch', 'Wordnet() for a request matching no '
                                             'lexicon did not raise wn.Error',
                                             {'spec': spec, 'lang': lang, 'exc': repr(exc)}, tags)
                else:
                    if exc is not None:
                        raise self.violation('wordnet-raises', 'Wordnet() raised %s although '
                                             'the request matches lexicons' % type(exc).__name__,
                                             {'spec': spec, 'lang': lang, 'exc': repr(exc),
                                              'expected': want}, tags)
                    got = sorted({lx.specifier() for lx in w.lexicons()})
                    if got != want:
                        raise self.violation(
                            'selection', 'Wordnet(lexicon=..., lang=...).lexicons() selects '
                            'other lexicons than documented (%s)'
                            % self.classify(spec, got, want),
                            {'spec': spec, 'lang': lang, 'observed': got, 'expected': want,
                             'installed_in_add_order': list(m.installed)}, tags)
            # wn.remove(spec) selection, on a copy of the database (not in every state: the
            # copy/restore replaces the pooled connection, which would hide state kept per
            # connection)
            for spec, _ in (self.battery(rng)[6:9] if rng.random() < 0.35 else []):
                snap = self.W.snapshot()
                m2 = m.copy()
                matched = m2.select(spec)
                m2.remove_specs(matched)
                _, exc = self.call(wn.remove, spec, progress_handler=None)
                SpecSim.evals += 1
                got = sorted(lx.specifier() for lx in wn.lexicons())
                self.W.restore(snap)
                if not matched:
                    # the property does not say whether remove() must raise here; it must not
                    # fail in any other way and must not remove anything
                    if exc is not None and not isinstance(exc, wn.Error):
                        raise self.violation('nomatch', 'remove() of a specifier matching '
                                             'nothing raised %s' % type(exc).__name__,
                                             {'spec': spec, 'exc': repr(exc)})
                    if got != sorted(m.installed):
                        raise self.violation('remove-selection', 'remove() of a specifier '
                                             'matching nothing removed lexicons',
                                             {'spec': spec, 'left': got})
                    continue
                if exc is not None:
                    raise self.violation('remove-raises', 'remove(%r) raised %s'
                                         % (spec, type(exc).__name__), {'exc': repr(exc)})
                if got != sorted(m2.installed):
                    raise self.violation(
                        'remove-selection', 'wn.remove(specifier) removed other lexicons than '
                        'documented (%s)' % self.classify(spec, sorted(set(m.installed) - set(got)),
                                                          sorted(set(m.installed) - set(m2.installed))),
                        {'spec': spec, 'left': got, 'expected_left': sorted(m2.installed),
                         'installed_in_add_order': list(m.installed)},
                        self.tags_for(spec, None))
        finally:
            self.W.end_op()

    def tags_for(self, spec, lang):
        parts = spec.split()
        tags = []
        bare = [p for p in parts if ':' not in p and not any(c in p for c in '*?[')]
        if bare:
            tags.append('bare-id')
        if len(parts) > 1:
            tags.append('list')
        if '*' in spec:
            tags.append('star-somewhere')
        if any(('?' in p or '[' in p) and '*' not in p for p in parts):
            tags.append('glob-without-star')
        return tags

    def classify(self, spec, got, want):
        if set(got) < set(want):
            return 'too few'
        if set(got) > set(want):
            return 'too many'
        return 'different'


def build_many(seed):
    rng = subseed(seed, 'universe-many')
    u = U.generate_many_lex(rng)
    plan = [{'op': 'add', 'res': r['name']} for r in u['resources']]
    plan.append({'op': 'remove', 'spec': rng.choice(u['order'])})
    return u, plan


def build(seed):
    if subseed(seed, 'many').random() < 0.002:
        return build_many(seed)    # more than 256 / 512 installed lexicons
    rng = subseed(seed, 'universe')
    prof = U.Profile.draw(rng)
    prof.update(n_bases=rng.choice([2, 3, 3]), p_second_version=0.9, max_entries=1,
                max_synsets=1, n_ext=rng.choice([0, 1]), n_ili_files=0,
                multi_file=rng.choice([0.0, 0.5]))
    u = U.generate(rng, prof)
    prng = subseed(seed, 'plan')
    swarm = {'routes': False, 'batch': False, 'short_reads': False}
    m = Model(u)
    plan = []
    # some callers keep two data directories and point wn.config at one or the other
    two_dirs = prng.random() < 0.3
    models = {'primary': m, 'second': Model(u)}
    cur = 'primary'
    for _ in range(prng.randint(4, 10) + (4 if two_dirs else 0)):
        r = prng.random()
        if two_dirs and prng.random() < 0.35 and plan:
            models[cur] = m
            cur = 'second' if cur == 'primary' else 'primary'
            m = models[cur]
            plan.append({'op': 'switch', 'node': cur, 'restart': prng.random() < 0.5})
            continue
        addable = [res for res in u['resources'] if m.plan_add(res['lexicons'])]
        if (r < 0.6 and addable) or not m.installed:
            res = prng.choice(addable or u['resources'])
            plan.append({'op': 'add', 'res': res['name']})
            m.add_resource(res['lexicons'])
        elif r < 0.9:
            sp = prng.choice(m.installed)
            plan.append({'op': 'remove', 'spec': sp})
            m.remove_specs([sp])
        else:
            plan.append({'op': 'restart'})
    if two_dirs and prng.random() < 0.7:
        # a session that only reads: a fresh process visiting both directories in turn
        for k in range(prng.choice([2, 3])):
            cur = 'second' if cur == 'primary' else 'primary'
            plan.append({'op': 'switch', 'node': cur, 'restart': k == 0})
    if prng.random() < 0.12:
        # one of the later mutations is performed by a second process
        cands = [i for i, op in enumerate(plan) if i >= 1 and op['op'] in ('add', 'remove')]
        if cands:
            i = prng.choice(cands)
            plan[i] = {'op': 'external', 'do': dict(plan[i])}
    return u, plan


def run_one(seed, tier):
    u, plan = build(seed)
    SpecSim.evals = 0
    SpecSim.nt = set()
    r = run_plan(PROP, seed, u, plan, ORACLES, sim_cls=SpecSim)
    r['evals'] = SpecSim.evals
    r['nt'] = len(SpecSim.nt)
    r['nontrivial'] = bool(SpecSim.nt)
    r['sample'] = plan_summary(u, plan)
    r['replay'] = {'universe': u, 'plan': plan, 'oracles': ORACLES, 'end_checks': []}
    return r


def replay(obj):
    return run_plan(PROP, obj['seed'], obj['universe'], obj['plan'], ORACLES, sim_cls=SpecSim)


def coverage_extra(results):
    return {'evaluations': max(1, sum(r.get('evals', 0) for r in results)),
            'distinct_nontrivial': sum(r.get('nt', 0) for r in results)}
