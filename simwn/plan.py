"""Seeded generation of the op + fault sequence of a run (swarm-configured)."""
from __future__ import annotations

import random

from .model import Model, spec_of
from . import xmlout

BATCHES = [1, 2, 3, 5, 8, 1000]
ADD_ROUTES = ['xml', 'xml', 'xml', 'gz', 'xz', 'pkg', 'tar-file', 'tgz-pkg', 'txz-file', 'mem',
              'dl-url', 'dl-project']
ILI_ROUTES = ['xml', 'xml', 'gz', 'pkg', 'dl-url']


def add_op(rng, res, swarm):
    op = {'op': 'add', 'res': res['name']}
    if swarm.get('routes', True):
        op['route'] = rng.choice(ADD_ROUTES)
    if swarm.get('batch', True):
        op['batch'] = rng.choice(BATCHES)
    if swarm.get('short_reads', True) and rng.random() < 0.5:
        op['short_reads'] = True
    if rng.random() < 0.3:
        op['quote'] = "'"
    if swarm.get('style') and rng.random() < 0.6:
        op['style'] = {'seed': rng.randint(0, 10 ** 6), 'shuffle_attrs': rng.random() < 0.5,
                       'cdata': rng.random() < 0.4, 'comments': rng.random() < 0.3,
                       'charrefs': rng.random() < 0.3, 'mixed_quotes': rng.random() < 0.3,
                       'dup_stubs': rng.random() < 0.3, 'raw_gt': rng.random() < 0.3,
                       'loose_attrs': rng.random() < 0.25}
    return op


def independent_siblings(universe, res, m: Model, rng, limit=2):
    """Other resources that may share a collection with *res* whatever the directory order:
    nothing of them installed yet, no lexicon of one extends a lexicon of another package,
    every extension's base already installed or inside its own package."""
    out = []
    taken = set(res['lexicons'])

    def self_contained(r):
        for sp in r['lexicons']:
            b = m.idx[sp].base
            if b is not None and b not in m.installed:
                return False      # (a base inside the same file is skipped anyway)
        return True
    if not self_contained(res):
        return []
    for r in universe['resources']:
        if r['name'] == res['name'] or set(r['lexicons']) & taken:
            continue
        if any(sp in m.installed for sp in r['lexicons']) or not self_contained(r):
            continue
        if any(m.idx[sp].base in taken for sp in r['lexicons']) or \
                any(m.idx[sp].base in r['lexicons'] for sp in taken):
            continue
        if rng.random() < 0.7:
            out.append(r)
            taken |= set(r['lexicons'])
    return out[:limit]


def remove_specs(rng, model: Model, universe, bare_ok=True):
    """Candidate removal specifiers given what is installed."""
    inst = model.installed
    out = []
    if not inst:
        return ['*', 'zz:9']
    sp = rng.choice(inst)
    doc = universe['lexicons'][sp]
    out += [sp, sp, sp]
    out.append('%s:*' % doc['id'])
    out.append('*:%s' % doc['version'])
    same_id = [x for x in inst if universe['lexicons'][x]['id'] == doc['id']]
    if bare_ok and len(same_id) == 1:
        out.append(doc['id'])
    out.append('%s*' % doc['id'][0])
    out.append('*')
    out.append('nope:1')
    return out


def history(rng: random.Random, universe, n_ops, swarm, model: Model | None = None):
    """A fault-free C05-style history over the universe.  Uses a private model to steer
    towards interesting states (re-adds, removals of bases with extensions, ...)."""
    m = model or Model(universe)
    ops = []
    resources = universe['resources']
    ilis = universe['ili_files']
    last_removed = None
    for _ in range(n_ops):
        r = rng.random()
        not_inst = [res for res in resources if m.plan_add(res['lexicons'])]
        if (r < 0.45 and not_inst) or not m.installed:
            cands = not_inst or resources
            if last_removed and rng.random() < 0.5:
                cands = [res for res in resources
                         if set(res['lexicons']) & set(last_removed)] or cands
            res = rng.choice(cands)
            op = add_op(rng, res, swarm)
            if swarm.get('routes', True) and rng.random() < 0.12:
                sibs = independent_siblings(universe, res, m, rng)
                if sibs:
                    op['route'] = rng.choice(['col', 'col', 'tar-col', 'txz-col'])
                    op['siblings'] = [r['name'] for r in sibs]
                    for r in sibs:
                        m.add_resource(r['lexicons'])
            ops.append(op)
            m.add_resource(res['lexicons'])
            last_removed = None
        elif r < 0.55:
            res = rng.choice(resources)          # possibly already installed: a no-op add
            ops.append(add_op(rng, res, swarm))
            m.add_resource(res['lexicons'])
        elif r < 0.8:
            spec = rng.choice(remove_specs(rng, m, universe))
            ops.append({'op': 'remove', 'spec': spec})
            matched = m.select(spec)
            txns = m.remove_specs(matched)
            last_removed = [x for t in txns for x in t]
            if swarm.get('rerelease'):
                for sp in last_removed:
                    if sp in m.alt and rng.random() < 0.6:
                        ops.append({'op': 'rerelease', 'spec': sp})
                        m.rerelease(sp)
        elif r < 0.9 and ilis:
            f = rng.choice(ilis)
            ops.append({'op': 'add_ili', 'file': f['name'], 'route': rng.choice(ILI_ROUTES),
                        'batch': rng.choice(BATCHES)})
            m.add_ili(f)
        elif r < 0.95:
            ops.append({'op': 'restart'})
        else:
            ops.append({'op': 'checkpoint'})
    if swarm.get('external') and m.installed and rng.random() < 0.5:
        # an upgrade script run by ANOTHER process while this one keeps running: it removes
        # the lexicon added last (its row number becomes free) and adds a different one
        last = m.installed[-1]
        others = [res for res in resources if m.plan_add(res['lexicons'])
                  and last not in res['lexicons']
                  and all(m.idx[sp].base is None for sp in res['lexicons'])]
        if others:
            res = rng.choice(others)
            ops.append({'op': 'external', 'do': {'op': 'remove', 'spec': last}})
            m.remove_specs(m.select(last))
            ops.append({'op': 'external', 'do': {'op': 'add', 'res': res['name']}})
            m.add_resource(res['lexicons'])
    if swarm.get('external') and len(ops) > 2:
        # one of the later mutations is performed by a second process
        cands = [i for i, op in enumerate(ops) if i >= 1 and op['op'] in ('add', 'remove')
                 and not op.get('siblings')]
        if cands:
            i = rng.choice(cands)
            inner = {k: v for k, v in ops[i].items() if k in ('op', 'res', 'spec')}
            ops[i] = {'op': 'external', 'do': inner}
            # sometimes the other process does two things in a row (an upgrade script that
            # removes one lexicon and adds another) while this one only looks on
            if i + 1 in cands and rng.random() < 0.6:
                inner = {k: v for k, v in ops[i + 1].items() if k in ('op', 'res', 'spec')}
                ops[i + 1] = {'op': 'external', 'do': inner}
    return ops


def sprinkle_faults(prng, plan, n=1):
    """Attach a random fault to up to *n* add/remove/add_ili ops of a history."""
    cands = [i for i, op in enumerate(plan) if op['op'] in ('add', 'remove', 'add_ili')]
    for i in prng.sample(cands, min(len(cands), n)):
        k = prng.choice(['F1', 'F1', 'F3', 'F3', 'F2'])
        f = {'kind': k}
        if k == 'F1':
            f['at'] = prng.choice([2, 3, 5, 8, 13, 21, 34, 55])
            f['exc'] = prng.choice(['fault', 'fault', 'interrupt', 'interrupt', 'exit', 'cancel'])
        elif k == 'F3':
            f['at'] = prng.choice([2, 3, 5, 8, 13, 21, 34])
            f['mid'] = prng.random() < 0.3
        else:
            f['at'] = prng.choice([3, 9, 27, 81])
        plan[i] = dict(plan[i], fault=f)
    return plan
