"""The simulated world: data directories ("nodes"), seams, fault injectors, event log.

All seams are installed by wrapping — nothing in /repo is modified:

* storage:  ``wn._db.sqlite3`` is replaced by a shim whose ``connect`` passes
  ``factory=SimConnection``; statements are counted, faults injected, the VM progress
  interval rewritten, a per-call statement budget enforced;
* progress-handler class handed to ``wn.add/remove/...`` (counts callbacks, raises at k);
* knobs: ``wn._add.BATCH_SIZE``, ``wn.lmf.open`` (short reads), ``Path.iterdir`` order;
* nodes: ``wn.config.data_directory``;  restart: close + clear ``wn._db.pool``.
"""
from __future__ import annotations

import gzip
import hashlib
import json
import logging
import lzma
import os
import pathlib
import random
import shutil
import sqlite3
import sys
import tempfile
import threading

REPO = os.environ.get('VERIF_REPO', '/repo')
if sys.path[0] != REPO:
    sys.path.insert(0, REPO)

import wn                      # noqa: E402
import wn._db                  # noqa: E402
import wn._add                 # noqa: E402
import wn.lmf                  # noqa: E402
import wn.project              # noqa: E402
from wn.util import ProgressHandler   # noqa: E402

assert os.path.realpath(wn.__file__).startswith(os.path.realpath(REPO) + os.sep), \
    'wn imported from %s, not from %s' % (wn.__file__, REPO)

_real_sqlite3_connect = sqlite3.connect
_real_iterdir = pathlib.Path.iterdir
_DEFAULT_BATCH = wn._add.BATCH_SIZE


class SimFault(Exception):
    """Exception raised by the caller's progress handler (fault kind F1)."""


class SimInterrupt(KeyboardInterrupt):
    """Ctrl-C delivered inside the caller's progress handler (fault kind F1, BaseException)."""


class SimExit(SystemExit):
    """sys.exit() inside the caller's progress handler or a signal handler running there
    (fault kind F1; survives in hosts that catch SystemExit: GUI loops, notebooks, pytest)."""


class SimCancel(BaseException):
    """Task cancellation delivered inside the caller's progress handler (fault kind F1): like
    asyncio.CancelledError neither an Exception nor a KeyboardInterrupt."""


SIM_RAISED = (SimFault, SimInterrupt, SimExit, SimCancel)


class SimBudget(BaseException):
    """Deterministic hang detection: statement budget of one API call exhausted."""


class Faults:
    """What is armed for the current op; counts what fires."""

    def __init__(self):
        self.reset()

    def reset(self):
        self.cb_at = None          # F1: raise at progress callback k
        self.cb_exc = 'fault'
        self.stmt_at = None        # F3: fail statement n
        self.stmt_err = 'disk I/O error'
        self.stmt_mid = False      # F3: fail after a prefix of an executemany batch
        self.auth_at = None        # F2: deny authorizer callback n
        self.vm_at = None          # F5: raise at VM progress callback v
        self.vm_interval = None    # F5: rewritten interval of set_progress_handler
        self.commit_fail = False   # F3 variant: COMMIT fails
        self.fired = []


class World:
    current: 'World | None' = None

    def __init__(self, seed, tmp_root=None):
        self.seed = seed
        self.root = tempfile.mkdtemp(prefix='simwn-', dir=tmp_root or _tmp_base())
        self.nodes = {}
        self.faults = Faults()
        self.counters = {'cb': 0, 'stmt': 0, 'auth': 0, 'vm': 0, 'commit': 0, 'rollback': 0}
        self.cb_log = []            # (kind, status) of progress callbacks of the current op
        self.stmt_log = []          # (kind, first word(s), nrows) of statements of current op
        self.budget = None
        self.events = []
        self.fired_total = {}
        self.rng_iterdir = random.Random('%s:iterdir' % seed)
        self.rng_read = random.Random('%s:read' % seed)
        self.short_reads = False
        self.shuffle_dirs = False
        self.cache_pages = random.Random('%s:cache' % seed).choice([0, 0, 1, 2, 8])
        self.reentrant_every = random.Random('%s:reentrant' % seed).choice([0, 0, 0, 3, 7])
        self._in_read = False
        self._in_vm = False
        self.reads = 0
        self.page_size = random.Random('%s:page' % seed).choice([0, 0, 512, 1024])
        self.recording = False
        # the documented web-application setting: one pooled connection shared by threads
        self.multithreading = random.Random('%s:mt' % seed).random() < 0.3
        # how callers spell paths: absolute str, pathlib.Path, relative to the working
        # directory, relative to the home directory ('~/...')
        self.rng_spell = random.Random('%s:spell' % seed)
        self.path_spelling = self.rng_spell.random() < float(os.environ.get('VERIF_P_SPELL', '0.4'))
        self.spelled = 0
        # ambient configuration of the host application
        self.dot_dirs = self.rng_spell.random() < 0.3      # input files below a dot-directory
        self.debug_logging = self.rng_spell.random() < 0.25
        self.typed_scores = self.rng_spell.random() < 0.5   # callers of the in-memory route
        self.strict_warnings = self.rng_spell.random() < 0.3
        self.symlinked_tmp = self.rng_spell.random() < 0.3    # TMPDIR reached through a symlink
        # a data directory that survived an upgrade: its (empty) database was initialised by
        # the pinned release, not by the tree under test
        self.legacy_db = self.rng_spell.random() < 0.2
        self.legacy_made = 0
        self.node('primary')
        self.use('primary')
        self.install()

    # -- nodes ----------------------------------------------------------------------------
    def node(self, name):
        if name not in self.nodes:
            d = os.path.join(self.root, name)
            os.makedirs(d, exist_ok=True)
            self.nodes[name] = d
            if self.legacy_db and name in ('primary', 'second'):
                self.make_legacy_db(os.path.join(d, 'wn.db'))
        return self.nodes[name]

    def make_legacy_db(self, path):
        """An empty database exactly as the pinned release initialises it (its schema.sql and
        the two default ILI statuses).  If the tree under test declares that schema
        incompatible it refuses the file, which is its right; then the world starts from
        nothing like every other world."""
        schema = os.path.join(os.path.dirname(os.path.dirname(os.path.abspath(__file__))),
                              'fixtures', 'schema-pinned.sql')
        conn = sqlite3.connect(path)
        try:
            with open(schema, encoding='utf-8') as fh:
                conn.executescript(fh.read())
            with conn:
                conn.executemany('INSERT INTO ili_statuses VALUES (null,?)',
                                 [('presupposed',), ('proposed',)])
        finally:
            conn.close()
        saved = wn.config._data_directory      # (the getter would create the directory)
        try:
            wn.config.data_directory = os.path.dirname(path)
            wn._db.connect()
            self.legacy_made += 1
        except wn.DatabaseError:
            os.unlink(path)
        finally:
            self.restart()
            wn.config.data_directory = saved

    def use(self, name):
        wn.config.data_directory = self.node(name)
        self.cur = name

    def dbpath(self, name=None):
        return os.path.join(self.node(name or self.cur), 'wn.db')

    def restart(self):
        """Process restart: pooled connections die; only committed data survives."""
        for conn in list(wn._db.pool.values()):
            try:
                conn.close()
            except Exception:
                pass
        wn._db.pool.clear()

    def snapshot(self, name=None):
        """Copy of the durable database file (the pooled connection is closed first)."""
        self.restart()
        src = self.dbpath(name)
        dst = src + '.snap%d' % len(os.listdir(os.path.dirname(src)))
        if os.path.exists(src):
            shutil.copyfile(src, dst)
        else:
            dst = None
        return dst

    def restore(self, snap, name=None):
        self.restart()
        dst = self.dbpath(name)
        for suffix in ('-journal', '-wal', '-shm'):
            if os.path.exists(dst + suffix):
                os.unlink(dst + suffix)
        if snap is None:
            if os.path.exists(dst):
                os.unlink(dst)
        else:
            shutil.copyfile(snap, dst)

    def workdir(self, name):
        d = os.path.join(self.root, 'work', '.cache' if self.dot_dirs else 'data', name)
        os.makedirs(d, exist_ok=True)
        return d

    # -- seams ------------------------------------------------------------------------------
    def install(self):
        World.current = self
        self._saved_env = (os.environ.get('HOME'), os.getcwd())
        os.environ['HOME'] = self.root
        os.chdir(self.root)
        wn.config.allow_multithreading = self.multithreading
        self._saved_tempdir = tempfile.tempdir
        if self.symlinked_tmp:
            # where the library puts its own temporary files (macOS: /var -> /private/var)
            real = os.path.join(self.root, 'private', 'tmp')
            os.makedirs(real, exist_ok=True)
            link = os.path.join(self.root, 'tmp')
            if not os.path.lexists(link):
                os.symlink(os.path.join(self.root, 'private', 'tmp'), link)
            tempfile.tempdir = link
        self._saved_loglevel = logging.getLogger('wn').level
        if self.debug_logging:
            logging.getLogger('wn').setLevel(logging.DEBUG)
        wn._db.sqlite3 = _Sqlite3Shim()
        wn._add.BATCH_SIZE = _DEFAULT_BATCH
        wn.lmf.open = _sim_open
        wn.project.gzip = _StreamShim(gzip)
        wn.project.lzma = _StreamShim(lzma)
        pathlib.Path.iterdir = _sim_iterdir

    def close(self):
        self.restart()
        home, cwd = self._saved_env
        if home is None:
            os.environ.pop('HOME', None)
        else:
            os.environ['HOME'] = home
        os.chdir(cwd)
        tempfile.tempdir = self._saved_tempdir
        logging.getLogger('wn').setLevel(self._saved_loglevel)
        wn.config.allow_multithreading = False
        wn._db.sqlite3 = sqlite3
        wn._add.BATCH_SIZE = _DEFAULT_BATCH
        if 'open' in vars(wn.lmf):
            del wn.lmf.open
        wn.project.gzip = gzip
        wn.project.lzma = lzma
        pathlib.Path.iterdir = _real_iterdir
        World.current = None
        shutil.rmtree(self.root, ignore_errors=True)

    def spell(self, path):
        """Another spelling of a path below the world's root (same file)."""
        if not self.path_spelling or not isinstance(path, str) \
                or not path.startswith(self.root + os.sep):
            return path
        rel = os.path.relpath(path, self.root)
        mode = self.rng_spell.choice(['abs', 'path', 'rel', 'rel-dot', 'rel-path', 'tilde',
                                      'tilde-path', 'rel-parent'])
        self.spelled += 1
        if mode == 'abs':
            return path
        if mode == 'path':
            return pathlib.Path(path)
        if mode == 'rel':
            return rel
        if mode == 'rel-dot':
            return os.path.join('.', rel)
        if mode == 'rel-path':
            return pathlib.Path(rel)
        if mode == 'rel-parent':
            return os.path.join('..', os.path.basename(self.root), rel)
        if mode == 'tilde':
            return os.path.join('~', rel)
        return pathlib.Path('~') / rel

    def set_batch(self, n):
        wn._add.BATCH_SIZE = n

    # -- op bracket ---------------------------------------------------------------------------
    def begin_op(self, budget=None, record=False):
        for k in self.counters:
            self.counters[k] = 0
        self.cb_log = []
        self.stmt_log = []
        self.budget = budget
        self.recording = record

    def end_op(self):
        self.budget = None
        self.recording = False
        fired = list(self.faults.fired)
        for f in fired:
            self.fired_total[f] = self.fired_total.get(f, 0) + 1
        self.faults.reset()
        conn = wn._db.pool.get(wn.config.database_path)
        if conn is not None:
            try:
                conn.set_authorizer(None)
            except Exception:
                pass
        return fired

    def arm_authorizer(self):
        """Install the F2 authorizer on the pooled connection (creates it if needed)."""
        conn = wn._db.connect()
        w = self

        def auth(action, a1, a2, dbname, source):
            if w._in_read:
                return sqlite3.SQLITE_OK
            w.counters['auth'] += 1
            if w.faults.auth_at is not None and w.counters['auth'] == w.faults.auth_at:
                w.faults.fired.append('F2-authorizer-deny')
                return sqlite3.SQLITE_DENY
            return sqlite3.SQLITE_OK
        conn.set_authorizer(auth)

    # -- callbacks from the seams -----------------------------------------------------------
    def reentrant_read(self):
        """A client reading through the public API from inside a progress callback, i.e. on
        the pooled connection while the mutator's transaction is open (a GUI handler that
        refreshes its view, another thread under allow_multithreading)."""
        if self._in_read:
            return
        self._in_read = True

        def client():
            try:
                n = 0
                for lx in wn.lexicons():
                    n += len(lx.extensions()) + (lx.extends() is not None) + len(lx.requires())
                for ss in wn.synsets()[:2]:
                    ss.lexicon()
                self.reads += 1
            except wn.Error:
                pass
            except BaseException as e:       # re-raised in the mutator's thread below
                box.append(e)
        box = []
        try:
            if self.multithreading:
                # a real second thread; the mutator waits for it, so the interleaving is
                # still decided here and nowhere else
                t = threading.Thread(target=client, name='sim-client')
                t.start()
                t.join()
            else:
                client()
            if box:
                raise box[0]
        finally:
            self._in_read = False

    def on_cb(self, kind, status):
        if self._in_read:
            return           # callbacks caused by the client's own re-entrant read
        c = self.counters
        c['cb'] += 1
        if self.reentrant_every and c['cb'] % self.reentrant_every == 0 and not self._in_vm:
            # (never from inside SQLite's VM progress callback: a statement is executing)
            self.reentrant_read()
        if self.recording:
            self.cb_log.append((kind, status))
        f = self.faults
        if f.cb_at is not None and c['cb'] == f.cb_at:
            f.fired.append('F1-handler-%s' % kind)
            f.cb_at = None
            if f.cb_exc == 'interrupt':
                raise SimInterrupt('simulated Ctrl-C in progress handler (%s)' % kind)
            if f.cb_exc == 'exit':
                raise SimExit('simulated sys.exit() in progress handler (%s)' % kind)
            if f.cb_exc == 'cancel':
                raise SimCancel('simulated task cancellation in progress handler (%s)' % kind)
            raise SimFault('simulated progress-handler failure (%s)' % kind)

    def on_stmt(self, kind, sql, nrows):
        """Called before a statement runs. Returns the prefix length to execute before
        failing (executemany mid-batch fault) or None."""
        if self._in_read:
            return None      # a client's re-entrant read: not part of the op's fault space
        c = self.counters
        c['stmt'] += 1
        if self.recording:
            self.stmt_log.append((kind, ' '.join(sql.split()[:3]), nrows))
        if self.budget is not None and c['stmt'] > self.budget:
            raise SimBudget('statement budget %d exhausted' % self.budget)
        f = self.faults
        if f.stmt_at is not None and c['stmt'] == f.stmt_at:
            f.stmt_at = None
            if f.stmt_mid and kind == 'executemany' and nrows > 1:
                f.fired.append('F3-stmt-midbatch')
                return nrows // 2
            f.fired.append('F3-stmt-before')
            raise sqlite3.OperationalError(f.stmt_err)
        return None

    def log(self, **rec):
        rec['seq'] = len(self.events)
        self.events.append(rec)

    def event_digest(self):
        return hashlib.sha256(json.dumps(self.events, sort_keys=True, ensure_ascii=False,
                                         default=str).encode('utf-8')).hexdigest()[:20]


def _tmp_base():
    for d in ('/dev/shm', tempfile.gettempdir()):
        if os.path.isdir(d) and os.access(d, os.W_OK):
            return d
    return None


# -- storage seam -------------------------------------------------------------------------------

class SimCursor(sqlite3.Cursor):
    def execute(self, sql, params=()):
        w = World.current
        if w is not None:
            w.on_stmt('execute', sql, 1)
        return super().execute(sql, params)

    def executemany(self, sql, seq):
        w = World.current
        if w is None:
            return super().executemany(sql, seq)
        rows = list(seq)
        prefix = w.on_stmt('executemany', sql, len(rows))
        if prefix is not None:
            super().executemany(sql, rows[:prefix])
            raise sqlite3.OperationalError(w.faults.stmt_err)
        return super().executemany(sql, rows)

    def executescript(self, script):
        w = World.current
        if w is not None:
            w.on_stmt('executescript', script, 1)
        return super().executescript(script)


class SimConnection(sqlite3.Connection):
    def cursor(self, factory=SimCursor):
        return super().cursor(factory)

    def commit(self):
        w = World.current
        if w is not None:
            w.counters['commit'] += 1
            if w.faults.commit_fail and self.in_transaction:
                w.faults.commit_fail = False
                w.faults.fired.append('F3-commit-fails')
                raise sqlite3.OperationalError('disk I/O error')
        return super().commit()

    def rollback(self):
        w = World.current
        if w is not None:
            w.counters['rollback'] += 1
        return super().rollback()

    def set_progress_handler(self, handler, n):
        w = World.current
        if w is None or handler is None:
            return super().set_progress_handler(handler, n)
        interval = w.faults.vm_interval or n

        def wrapped(*a):
            if w._in_read:
                return 0
            w.counters['vm'] += 1
            f = w.faults
            if f.vm_at is not None and w.counters['vm'] == f.vm_at:
                f.vm_at = None
                f.fired.append('F5-vm-interrupt')
                raise SimFault('simulated failure in VM progress callback')
            w._in_vm = True
            try:
                return handler(*a)
            finally:
                w._in_vm = False
        return super().set_progress_handler(wrapped, interval)


class _Sqlite3Shim:
    """Stands in for the ``sqlite3`` module inside ``wn._db`` only."""

    def __getattr__(self, name):
        return getattr(sqlite3, name)

    def connect(self, *args, **kwargs):
        kwargs['factory'] = SimConnection
        kwargs.setdefault('timeout', 0)
        path = args[0] if args else kwargs.get('database')
        fresh = not (path and os.path.exists(path) and os.path.getsize(path) > 0)
        conn = _real_sqlite3_connect(*args, **kwargs)
        w = World.current
        if w is not None and w.page_size and fresh:
            # tuning knob: small pages make even small writes allocate pages (and hit a
            # real SQLITE_FULL under PRAGMA max_page_count)
            conn.execute('PRAGMA page_size = %d' % w.page_size)
        if w is not None and w.cache_pages:
            # tuning knob of the storage engine: a page cache small enough for write
            # transactions to spill to the database file before they commit or roll back
            conn.execute('PRAGMA cache_size = %d' % w.cache_pages)
        return conn


# -- progress-handler seam -----------------------------------------------------------------------

class SimHandler(ProgressHandler):
    def __init__(self, **kwargs):
        kwargs['file'] = None
        super().__init__(**kwargs)
        World.current.on_cb('init', self.kwargs.get('status', ''))

    def update(self, n=1, force=False):
        super().update(n, force=force)
        World.current.on_cb('update', self.kwargs.get('status', ''))

    def set(self, **kwargs):
        self.kwargs.update(**kwargs)
        World.current.on_cb('set', self.kwargs.get('status', ''))
        self.update(0, force=True)

    def flash(self, message):
        World.current.on_cb('flash', self.kwargs.get('status', ''))

    def close(self):
        World.current.on_cb('close', self.kwargs.get('status', ''))


# -- file seams ----------------------------------------------------------------------------------

class _ShortReader:
    def __init__(self, fh, rng):
        self._fh = fh
        self._rng = rng

    def read(self, n=-1):
        if n is None or n < 0:
            return self._fh.read()
        w = World.current
        if w is not None and w.short_reads and n > 1:
            r = self._rng.random()
            n = 1 if r < 0.2 else (self._rng.randint(1, min(n, 7)) if r < 0.6
                                   else self._rng.randint(1, min(n, 300)))
        return self._fh.read(n)

    def __getattr__(self, name):
        return getattr(self._fh, name)

    def __enter__(self):
        return self

    def __exit__(self, *a):
        return self._fh.__exit__(*a)

    def __iter__(self):
        return iter(self._fh)


class _StreamShim:
    """Stands in for the gzip / lzma module inside wn.project: decompressed streams deliver
    short reads too (POSIX and the stream classes allow fewer bytes than requested)."""

    def __init__(self, mod):
        self._mod = mod

    def __getattr__(self, name):
        return getattr(self._mod, name)

    def open(self, *args, **kwargs):
        fh = self._mod.open(*args, **kwargs)
        w = World.current
        if w is not None and w.short_reads:
            return _ShortReader(fh, w.rng_read)
        return fh


def _sim_open(file, mode='r', *args, **kwargs):
    fh = open(file, mode, *args, **kwargs)
    w = World.current
    if w is not None and w.short_reads and 'b' in mode and 'r' in mode:
        return _ShortReader(fh, w.rng_read)
    return fh


def _sim_iterdir(self):
    w = World.current
    entries = sorted(_real_iterdir(self), key=lambda p: p.name)
    if w is not None and w.shuffle_dirs:
        w.rng_iterdir.shuffle(entries)
    return iter(entries)
