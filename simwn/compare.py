"""Comparator classes: the expected side of an image wraps a value in the class that says
*how much* of it a property promises (order, multiset, set, one-of)."""
from __future__ import annotations

import json


def canon(x) -> str:
    return json.dumps(x, sort_keys=True, ensure_ascii=False, default=_default)


def _default(o):
    if isinstance(o, (set, frozenset)):
        return sorted(canon(v) for v in o)
    if isinstance(o, tuple):
        return list(o)
    if isinstance(o, Cmp):
        return {o.__class__.__name__: o.json()}
    raise TypeError(type(o))


class Cmp:
    def diff(self, obs, path):
        raise NotImplementedError

    def json(self):
        return None


class Bag(Cmp):
    """Multiset: same elements with the same multiplicities, any order."""

    def __init__(self, items):
        self.items = list(items)

    def json(self):
        return sorted(canon(i) for i in self.items)

    def diff(self, obs, path):
        if not isinstance(obs, list):
            return [(path, 'expected a list', canon(obs))]
        a = sorted(canon(i) for i in self.items)
        b = sorted(canon(i) for i in obs)
        if a != b:
            return [(path, 'bag mismatch', {'missing': _minus(a, b), 'extra': _minus(b, a)})]
        return []


KNOWN_HITS: dict = {}      # finding id -> count, reset per run by the harness
ENABLED_FINDINGS: set = set()   # ids listed in known_findings.json


def note_known(fid):
    KNOWN_HITS[fid] = KNOWN_HITS.get(fid, 0) + 1


class BagKnownExtras(Cmp):
    """A Bag that tolerates *extra* elements, but only while the known finding *fid* is
    listed in known_findings.json; each tolerated occurrence is counted and reported."""

    def __init__(self, items, fid):
        self.items = list(items)
        self.fid = fid

    def json(self):
        return sorted(canon(i) for i in self.items)

    def diff(self, obs, path):
        if self.fid not in ENABLED_FINDINGS:
            return Bag(self.items).diff(obs, path)
        a = sorted(canon(i) for i in self.items)
        b = sorted(canon(i) for i in obs)
        missing = _minus(a, b)
        if missing:
            return [(path, 'bag mismatch', {'missing': missing, 'extra': _minus(b, a)})]
        if _minus(b, a):
            note_known(self.fid)
        return []


class SetOf(Cmp):
    """Set: same distinct elements; multiplicity and order ignored."""

    def __init__(self, items):
        self.items = list(items)

    def json(self):
        return sorted(set(canon(i) for i in self.items))

    def diff(self, obs, path):
        a = sorted(set(canon(i) for i in self.items))
        b = sorted(set(canon(i) for i in obs))
        if a != b:
            return [(path, 'set mismatch', {'missing': _minus(a, b), 'extra': _minus(b, a)})]
        return []


class Merge(Cmp):
    """A list that must contain exactly the elements of all groups (as a bag) and keep the
    relative order inside every group (groups come from different documents)."""

    def __init__(self, groups):
        self.groups = [list(g) for g in groups]

    def json(self):
        return self.groups

    def diff(self, obs, path):
        allx = [x for g in self.groups for x in g]
        d = Bag(allx).diff(obs, path)
        if d:
            return d
        for g in self.groups:
            if len(set(canon(x) for x in g)) != len(g):
                continue   # duplicates inside a group: order not decidable
            pos = []
            cobs = [canon(o) for o in obs]
            for x in g:
                pos.append(cobs.index(canon(x)))
            if pos != sorted(pos):
                return [(path, 'order within document not kept', {'expected': g, 'observed': obs})]
        return []


class HeadThenMerge(Cmp):
    """A list of mappings: first *head*, then exactly the elements of all groups, keeping the
    relative order inside every group (groups come from different documents).  Elements are
    paired through their plain-valued *keys*; each pair is then compared in full (elements
    may contain comparators)."""

    def __init__(self, head, groups, keys):
        self.head = head
        self.groups = [list(g) for g in groups]
        self.keys = keys

    def json(self):
        return [self.head] + self.groups

    def diff(self, obs, path):
        if not isinstance(obs, list) or not obs:
            return [(path, 'list expected', {'observed': obs})]
        d = diff(self.head, obs[0], path + '[0]')
        if d:
            return d
        rest = obs[1:]
        total = sum(len(g) for g in self.groups)
        if len(rest) != total:
            return [(path, 'length mismatch', {'expected': total + 1, 'observed': len(obs),
                                               'observed_list': rest})]

        def ident(x):
            return canon([x.get(k) for k in self.keys]) if isinstance(x, dict) else None
        used = set()
        for g in self.groups:
            last = -1
            for x in g:
                cands = [i for i in range(len(rest)) if i not in used and ident(rest[i]) == ident(x)]
                if not cands:
                    return [(path, 'element missing', {'expected': _plain(x), 'observed': rest})]
                later = [i for i in cands if i > last]
                if not later:
                    return [(path, 'order within document not kept',
                             {'expected_group': _plain(g), 'observed': rest})]
                # several elements may share the pairing keys (two documents giving the same
                # written form): take the first one that matches in full
                hit, first_dd = None, None
                for i in later:
                    saved = dict(KNOWN_HITS)
                    dd = diff(x, rest[i], '%s[%d]' % (path, i + 1))
                    if not dd:
                        hit = i
                        break
                    KNOWN_HITS.clear()
                    KNOWN_HITS.update(saved)
                    if first_dd is None:
                        first_dd = dd
                if hit is None:
                    return first_dd
                used.add(hit)
                last = hit
        return []


def _plain(x):
    import json as _json
    try:
        return _json.loads(canon(x))
    except Exception:
        return repr(x)


class PrefixThenSet(Cmp):
    """First the declared prefix in order, then the rest in any order."""

    def __init__(self, prefix, rest):
        self.prefix = list(prefix)
        self.rest = list(rest)

    def json(self):
        return {'prefix': self.prefix, 'rest': sorted(canon(r) for r in self.rest)}

    def diff(self, obs, path):
        d = Bag(self.prefix + self.rest).diff(obs, path)
        if d:
            return d
        n = len(self.prefix)
        if [canon(x) for x in obs[:n]] != [canon(x) for x in self.prefix]:
            return [(path, 'declared order not kept', {'expected_prefix': self.prefix,
                                                        'observed': obs})]
        return []


class OneOf(Cmp):
    def __init__(self, options):
        self.options = list(options)

    def json(self):
        return sorted(canon(o) for o in self.options)

    def diff(self, obs, path):
        if canon(obs) not in [canon(o) for o in self.options]:
            return [(path, 'not one of the expected values',
                     {'expected_one_of': self.options, 'observed': obs})]
        return []


class Ambiguous(Cmp):
    """Exactly *want*; while known finding *fid* is listed, one of *alternatives* is
    tolerated (and counted)."""

    def __init__(self, want, alternatives, fid):
        self.want = want
        self.alternatives = list(alternatives)
        self.fid = fid

    def json(self):
        return {'want': self.want, 'alt': self.alternatives}

    def diff(self, obs, path):
        if canon(obs) == canon(self.want):
            return []
        if self.fid in ENABLED_FINDINGS and canon(obs) in [canon(a) for a in self.alternatives]:
            note_known(self.fid)
            return []
        return [(path, 'value mismatch', {'expected': self.want, 'observed': obs,
                                          'same_id_elsewhere': self.alternatives})]


class Any(Cmp):
    """No promise."""

    def diff(self, obs, path):
        return []


def _minus(a, b):
    b = list(b)
    out = []
    for x in a:
        if x in b:
            b.remove(x)
        else:
            out.append(x)
    return out[:6]


def diff(exp, obs, path='') -> list:
    """Return a list of (path, message, detail); empty when *obs* satisfies *exp*."""
    if isinstance(exp, Cmp):
        return exp.diff(obs, path)
    if isinstance(exp, dict):
        if not isinstance(obs, dict):
            return [(path, 'expected a mapping', canon(obs))]
        out = []
        ek, ok = set(exp), set(obs)
        for k in sorted(ek - ok, key=str):
            if isinstance(exp[k], Any):
                continue
            out.append(('%s/%s' % (path, k), 'missing', canon(exp[k])[:300]))
        for k in sorted(ok - ek, key=str):
            out.append(('%s/%s' % (path, k), 'unexpected', canon(obs[k])[:300]))
        for k in sorted(ek & ok, key=str):
            out.extend(diff(exp[k], obs[k], '%s/%s' % (path, k)))
            if len(out) > 12:
                break
        return out
    if isinstance(exp, list):
        if not isinstance(obs, list) or len(exp) != len(obs):
            return [(path, 'list mismatch', {'expected': exp, 'observed': obs})]
        out = []
        for i, (a, b) in enumerate(zip(exp, obs)):
            out.extend(diff(a, b, '%s[%d]' % (path, i)))
        return out
    if exp != obs or (type(exp) is not type(obs)
                      and (isinstance(exp, bool) or isinstance(obs, bool))):
        return [(path, 'value mismatch', {'expected': exp, 'observed': obs})]
    return []
