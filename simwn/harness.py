"""Shared plumbing of the per-property checks: run a plan, package the result, replay."""
from __future__ import annotations

import json
import os
import random
import sys
import traceback

from . import observe
from .run import Sim, Violation
from .world import SimBudget


def subseed(seed, label) -> random.Random:
    return random.Random('%s:%s' % (seed, label))


def run_plan(prop, seed, universe, plan, oracles, end_checks=(), sim_cls=Sim, extra=None):
    """Execute *plan*; returns a result dict (JSON-able)."""
    from . import compare
    compare.KNOWN_HITS.clear()
    compare.ENABLED_FINDINGS.clear()
    compare.ENABLED_FINDINGS.update(enabled_findings())
    sim = sim_cls(universe, seed, prop, oracles)
    violation = None
    try:
        try:
            for op in plan:
                sim.do(op)
            for c in end_checks:
                getattr(sim, c)()
        except Violation as v:
            violation = v.to_json()
            violation['step'] = sim.step
        except SimBudget as b:
            violation = Violation(prop, 'termination', 'statement budget exhausted: call does '
                                  'not terminate within its budget', {'msg': str(b)}).to_json()
            violation['step'] = sim.step
        except Exception as e:
            # an exception that escapes from inside the library while a valid state is being
            # observed is the library's failure, not the harness's
            v = library_failure(prop, e)
            if v is None:
                raise
            violation = v.to_json()
            violation['step'] = sim.step
        digest = sim.W.event_digest()
        stats = sim.stats
        return {
            'seed': seed, 'violation': violation, 'digest': digest,
            'ops': stats['ops'], 'faults': stats['faults'],
            'states': sorted(stats['states']), 'probes': stats['probes'],
            'cells': sorted(stats['cells']),
            'fired_total': sim.W.fired_total,
            'n_installed_final': len(sim.m.installed),
            'known_hits': dict(compare.KNOWN_HITS),
            'extra': extra or {},
        }
    finally:
        sim.close()


def library_failure(prop, e):
    from .world import REPO
    tb = traceback.extract_tb(e.__traceback__)
    if not tb:
        return None
    inner = os.path.realpath(tb[-1].filename)
    if not inner.startswith(os.path.realpath(REPO) + os.sep):
        return None
    where = [f for f in tb if not os.path.realpath(f.filename).startswith(
        os.path.realpath(REPO) + os.sep)]
    caller = where[-1] if where else tb[0]
    return Violation(prop, 'api-raises', 'public API raised %s while a valid state was being '
                     'observed' % type(e).__name__,
                     {'exc': repr(e), 'library_frame': '%s:%d %s' % (
                         os.path.relpath(inner, os.path.realpath(REPO)), tb[-1].lineno,
                         tb[-1].name),
                      'observer_frame': '%s:%d %s' % (os.path.basename(caller.filename),
                                                      caller.lineno, caller.name)})


_FINDINGS = None


def enabled_findings():
    global _FINDINGS
    if _FINDINGS is None:
        p = os.path.join(os.path.dirname(os.path.dirname(os.path.abspath(__file__))),
                         'known_findings.json')
        _FINDINGS = set()
        if os.path.exists(p) and os.environ.get('VERIF_IGNORE_KNOWN') != '1':
            _FINDINGS = {f['id'] for f in json.load(open(p, encoding='utf-8')).get('findings', [])}
    return _FINDINGS


def replay_file(prop, seed, universe, plan, oracles, end_checks, violation, digest,
                extra=None):
    return {'format': 'simwn-replay-1', 'property': prop, 'seed': seed,
            'hashseed': os.environ.get('PYTHONHASHSEED'),
            'universe': universe, 'plan': plan, 'oracles': list(oracles),
            'end_checks': list(end_checks), 'violation': violation, 'digest': digest,
            'extra': extra or {}}


def plan_summary(universe, plan):
    return {
        'lexicons': {sp: {'entries': len(d.get('entries', [])),
                          'synsets': len(d.get('synsets', [])),
                          'extends': (d['extends']['id'] + ':' + d['extends']['version'])
                          if d.get('extends') else None}
                     for sp, d in universe['lexicons'].items()},
        'resources': [{'name': r['name'], 'lmf': r['lmf_version'], 'lexicons': r['lexicons']}
                      for r in universe['resources']],
        'plan': plan,
    }
