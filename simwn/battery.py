"""Battery of read-only public calls whose canonical transcript must not depend on the
process (PYTHONHASHSEED) or on repetition.  Run as a script in a FRESH interpreter:

    python battery.py <repo> <data_dir> <out.json>

Prints nothing; writes {'reps': [t1, t2, t3], 'dump_before': d, 'dump_after': d}.
Uses plain wn (no simulator seams)."""
import hashlib
import json
import os
import sqlite3
import sys
import tempfile
import warnings


def main(repo, data_dir, out, order='f', mode='full', carry=None):
    sys.path.insert(0, repo)
    import wn
    import wn.taxonomy
    import wn.similarity
    import wn.ic
    import wn.morphy
    import wn.validate
    import wn.lmf
    assert os.path.realpath(wn.__file__).startswith(os.path.realpath(repo) + os.sep)
    warnings.simplefilter('ignore')
    wn.config.data_directory = data_dir

    def ent(e):
        if e is None:
            return None
        return [type(e).__name__, e.id, getattr(e, '_ili', None) if e.id.startswith('*') else None]

    def c(x):
        """Canonical form: order of lists/tuples/dicts kept, sets sorted, floats by repr."""
        if isinstance(x, (wn.Word, wn.Sense, wn.Synset)):
            return ent(x)
        if isinstance(x, wn.Lexicon):
            return ['Lexicon', x.specifier()]
        if isinstance(x, wn.ILI):
            return ['ILI', x.id, x.status]
        if isinstance(x, wn.Relation):
            return ['Relation', x.name, x.source_id, x.target_id, x._lexicon, x.subtype]
        if isinstance(x, wn.Tag):
            return ['Tag', x.tag, x.category]
        if isinstance(x, wn.Pronunciation):
            return ['Pron', x.value, x.variety, x.notation, x.phonemic, x.audio]
        if isinstance(x, wn.Form):
            return ['Form', str(x), x.id, x.script]
        if isinstance(x, float):
            return repr(x)
        if isinstance(x, (str, int, bool)) or x is None:
            return x
        if isinstance(x, dict):
            return {'__dict__': [[c(k), c(v)] for k, v in x.items()]}
        if isinstance(x, (set, frozenset)):
            return {'__set__': sorted((c(i) for i in x), key=lambda j: json.dumps(j))}
        if isinstance(x, (list, tuple)):
            return [c(i) for i in x]
        return repr(x)

    def call(fn, *a, **kw):
        try:
            r = fn(*a, **kw)
            if hasattr(r, '__next__'):
                out_ = []
                for i, v in enumerate(r):
                    out_.append(v)
                    if i > 300:
                        break
                r = out_
            return c(r)
        except wn.Error as e:
            return ['wn.Error']
        except RecursionError:
            return ['RecursionError']
        except (KeyError, ZeroDivisionError, ValueError, IndexError, TypeError) as e:
            return ['exc', type(e).__name__]

    def one_pass(reverse=False):
        t = {}
        lexs = wn.lexicons()
        t['lexicons'] = c(lexs)
        sessions = [('*default*', {})]
        for lx in lexs:
            sessions.append((lx.specifier(), {'lexicon': lx.specifier()}))
            sessions.append((lx.specifier() + '/noexpand', {'lexicon': lx.specifier(),
                                                             'expand': ''}))
            sessions.append((lx.specifier() + '/expandall', {'lexicon': lx.specifier(),
                                                              'expand': '*'}))
            exts = lx.extensions(depth=-1)
            if exts:
                sessions.append((lx.specifier() + '+ext', {'lexicon': ' '.join(
                    [lx.specifier()] + [x.specifier() for x in exts])}))
        # results must not depend on which session was served first (no state may leak
        # between read-only calls): the visiting order differs between passes and processes
        if mode == 'light':
            sessions = sessions[:2]
        for name, kw in (reversed(sessions) if reverse else sessions):
            try:
                w = wn.Wordnet(**kw)
            except wn.Error:
                t[name] = 'wn.Error'
                continue
            s = {}
            s['expanded'] = c(w.expanded_lexicons())
            words, senses, synsets = w.words(), w.senses(), w.synsets()
            s['words'] = c(words)
            s['senses'] = c(senses)
            s['synsets'] = c(synsets)
            sel_words, sel_syn = words[:4], synsets[:5]
            all_words = words
            # arguments must be identical in every pass: build them before any reordering
            corpus = [str(x.lemma()) for x in words] * 2 + ['unknown-token', 'cat']
            # a corpus whose size crosses the thresholds small corpora never reach
            big_corpus = []
            primes = [1, 2, 3, 5, 7, 11, 13, 17, 19, 23, 29]
            j = 0
            for x in all_words:
                lem = str(x.lemma())
                for variant in (lem, lem.lower(), lem.upper(), lem.title()):
                    big_corpus += [variant] * primes[j % len(primes)]
                    j += 1
            big_corpus += ['tok%d' % i for i in range(1100)]
            if mode == 'light':
                words, senses, synsets = words[:8], senses[:8], synsets[:8]
                sel_syn = synsets[:3]
            if reverse:
                # entities are visited in another order too (results are keyed by lexicon
                # and id): no answer may depend on which entity was asked first
                words, senses, synsets = words[::-1], senses[::-1], synsets[::-1]

            def ek(e):
                return '%s|%s' % (e.lexicon().specifier(), e.id)
            s['ilis'] = c(w.ilis())
            s['describe'] = call(w.describe)
            for x in words:
                k = 'W:' + ek(x)
                s[k] = [call(x.forms), call(x.senses), call(x.synsets), call(x.derived_words),
                        call(x.metadata), [call(f.tags) for f in x.forms()],
                        [call(f.pronunciations) for f in x.forms()]]
                s['find:' + str(x.lemma())] = [call(w.words, str(x.lemma())),
                                               call(w.synsets, str(x.lemma())),
                                               call(w.senses, str(x.lemma()).upper())]
            for x in senses:
                s['S:' + ek(x)] = [call(x.word), call(x.synset), call(x.examples), call(x.counts),
                                  call(x.frames), call(x.relations), call(x.get_related),
                                  call(x.relation_map), call(x.get_related_synsets),
                                  call(x.closure), call(x.metadata)]
            for x in synsets:
                s['SS:' + ek(x)] = [
                    call(x.senses), call(x.words), call(x.lemmas), call(x.definition),
                    call(x.examples), call(x.relations), call(x.get_related),
                    call(x.relation_map), call(x.hypernyms), call(x.hyponyms),
                    call(x.closure, 'hypernym', 'instance_hypernym'), call(x.closure),
                    call(x.relation_paths, 'hypernym', 'instance_hypernym'),
                    call(x.hypernym_paths), call(x.hypernym_paths, True),
                    call(x.min_depth), call(x.max_depth), call(x.max_depth, True),
                    call(x.translate), call(x.metadata)]
            # taxonomy / similarity over pairs
            for pos in (('n', 'v', 'a', 's', 'r') if mode != 'light' else ()):
                s['roots:' + pos] = call(wn.taxonomy.roots, w, pos)
                s['leaves:' + pos] = call(wn.taxonomy.leaves, w, pos)
                s['depth:' + pos] = call(wn.taxonomy.taxonomy_depth, w, pos)
            freq = None
            try:
                if mode == 'light':
                    corpus = corpus[:40]
                freq = wn.ic.compute(corpus, w, distribute_weight=True, smoothing=1.0)
                s['ic'] = c(freq)
                if mode != 'light':
                    s['ic2'] = call(wn.ic.compute, corpus, w, False, 0.5)
                if name == '*default*' or name.endswith('/expandall') or mode == 'light':
                    s['ic_big'] = call(wn.ic.compute, big_corpus, w, True, 1.0)
            except Exception as e:
                s['ic'] = ['exc', type(e).__name__]
            pairs = [(a, b) for a in sel_syn for b in sel_syn]
            if reverse:
                pairs = pairs[::-1]
            for a, b in pairs:
                k = 'P:%s||%s' % (ek(a), ek(b))
                row = []
                for sim in (False, True):
                    row += [call(wn.taxonomy.shortest_path, a, b, sim),
                            call(wn.taxonomy.common_hypernyms, a, b, sim),
                            call(wn.taxonomy.lowest_common_hypernyms, a, b, sim),
                            call(wn.similarity.path, a, b, sim),
                            call(wn.similarity.wup, a, b, sim),
                            call(wn.similarity.lch, a, b, 5, sim)]
                if freq is not None:
                    row += [call(wn.similarity.res, a, b, freq),
                            call(wn.similarity.jcn, a, b, freq),
                            call(wn.similarity.lin, a, b, freq),
                            call(wn.ic.information_content, a, freq),
                            call(wn.ic.synset_probability, a, freq)]
                s[k] = row
            m = wn.morphy.Morphy(w)
            m0 = wn.morphy.Morphy()
            try:
                wl = wn.Wordnet(lemmatizer=m, **kw)
                wl0 = wn.Wordnet(lemmatizer=m0, **kw)
                lemmas = [str(x.lemma()) for x in w.words()]
                shared = sorted({f for f in lemmas if lemmas.count(f) > 1})[:6]
                for form in [str(x.lemma()) for x in sel_words] + shared + \
                        [str(x.lemma()) + 's' for x in sel_words] + ['cats', 'lights', 'ran']:
                    s['lemmatized:' + form] = [call(wl.words, form), call(wl.senses, form),
                                               call(wl.synsets, form), call(wl0.words, form),
                                               call(wl0.synsets, form)]
            except wn.Error:
                pass
            for form in ['cats', 'running', 'wolves', 'oxen', 'es', 'bigger'] + \
                    [str(x.lemma()) + 's' for x in sel_words[:3]]:
                s['morphy:' + form] = [call(m, form, None), call(m, form, 'n'),
                                       call(m0, form, 'v')]
            t[name] = s
        # lmf dump / export / validate
        tmp = tempfile.mkdtemp(prefix='battery-')
        try:
            for lx in (lexs if mode != 'light' else lexs[:1]):
                if lx.extends() is not None:
                    continue
                for v in (('1.0', '1.1', '1.3') if mode != 'light' else ('1.0',)):
                    p = os.path.join(tmp, 'x.xml')
                    try:
                        wn.export([lx], p, version=v)
                        data = open(p, 'rb').read()
                        t['export:%s:%s' % (lx.specifier(), v)] = [
                            hashlib.sha256(data).hexdigest(), data.decode('utf-8', 'replace')]
                        res = wn.lmf.load(p, progress_handler=None)
                        for lex in res['lexicons']:
                            rep = wn.validate.validate(lex, progress_handler=None)
                            t['validate:%s:%s' % (lx.specifier(), v)] = c(rep)
                            # the selection of checks is an argument like any other:
                            # several explicit codes, codes mixed with categories, any order
                            codes = sorted(getattr(wn.validate, '_codes', {}))
                            if v == '1.0' and len(codes) >= 8:
                                sels = [[codes[1], codes[4], codes[7]],
                                        [codes[7], codes[4], codes[1], codes[0]],
                                        ['E', codes[-1], codes[-3]],
                                        [codes[-2], 'E', codes[2], codes[5], codes[3]],
                                        codes[::-1][:6]]
                                for i, sel in enumerate(sels):
                                    t['validate-select:%s:%d' % (lx.specifier(), i)] = call(
                                        wn.validate.validate, lex, sel, None)
                        for suffix in ('.gz', '.xz'):
                            # a destination NAME is an argument like any other
                            pz = os.path.join(tmp, 'z.xml' + suffix)
                            wn.export([lx], pz, version=v)
                            t['export%s:%s:%s' % (suffix, lx.specifier(), v)] = hashlib.sha256(
                                open(pz, 'rb').read()).hexdigest()
                        p2 = os.path.join(tmp, 'y.xml')
                        wn.lmf.dump(res, p2)
                        t['dump:%s:%s' % (lx.specifier(), v)] = hashlib.sha256(
                            open(p2, 'rb').read()).hexdigest()
                    except wn.Error:
                        t['export:%s:%s' % (lx.specifier(), v)] = 'wn.Error'
        finally:
            import shutil
            shutil.rmtree(tmp, ignore_errors=True)
        return t

    def dump():
        conn = sqlite3.connect(os.path.join(data_dir, 'wn.db'))
        h = hashlib.sha256()
        for (name,) in conn.execute("SELECT name FROM sqlite_master WHERE type='table' "
                                    "ORDER BY name").fetchall():
            rows = sorted(repr(row) for row in conn.execute('SELECT * FROM %s' % name))
            for row in rows:
                h.update(row.encode('utf-8'))
        conn.close()
        return h.hexdigest()

    d0 = dump()
    rev = (order == 'r')
    reps = [one_pass(rev), one_pass(not rev)]
    for conn in list(wn._db.pool.values()):
        conn.close()
    wn._db.pool.clear()
    reps.append(one_pass(rev))
    for conn in list(wn._db.pool.values()):
        conn.close()
    wn._db.pool.clear()
    d1 = dump()
    stateful = failed_call_leaves_state(wn, call)
    carried = []
    if carry:
        carried = carried_arguments(wn, carry, call, c)
    with open(out, 'w', encoding='utf-8') as f:
        json.dump({'reps': reps, 'dump_before': d0, 'dump_after': d1, 'carried': carried,
                   'stateful': stateful}, f, ensure_ascii=False)


def failed_call_leaves_state(wn, call):
    """A read-only call that FAILS (the caller's lemmatizer or normalizer raises, as wrapped
    NLP tools do) must not change what later calls on the same Wordnet object return."""
    class Boom(ValueError):
        pass

    def lemmatizer(form, pos=None):
        if form == 'boom':
            raise Boom(form)
        base = form[:-1] if form.endswith('s') and len(form) > 1 else form
        return {pos: {form, base}}

    def normalizer(form):
        if form == 'boom':
            raise Boom(form)
        return form.lower()
    out = []
    for kw in ({'lemmatizer': lemmatizer}, {'normalizer': normalizer},
               {'lemmatizer': lemmatizer, 'normalizer': normalizer}):
        try:
            w = wn.Wordnet(**kw)
        except wn.Error:
            continue
        forms = [str(x.lemma()) for x in w.words()[:3]]
        forms += [f + 's' for f in forms] + [f.upper() for f in forms]
        before = [[call(w.words, f), call(w.senses, f), call(w.synsets, f)] for f in forms]
        for fn in (w.words, w.senses, w.synsets):
            try:
                fn('boom')
            except Boom:
                pass
            except Exception:
                pass
        after = [[call(w.words, f), call(w.senses, f), call(w.synsets, f)] for f in forms]
        if before != after:
            i = next(k for k in range(len(forms)) if before[k] != after[k])
            out.append({'options': sorted(kw), 'form': forms[i], 'before': before[i],
                        'after': after[i]})
    return out[:3]


def carried_arguments(wn, carry, call, c):
    """Synset objects as ARGUMENTS that come from another interpreter (pickled there after
    ordinary use, i.e. after having been hashed): the first battery process writes them, every
    later one - running under another hash seed - calls the pairwise functions with them and
    with freshly fetched objects of the same synsets; the answers must be the same."""
    import pickle
    w = wn.Wordnet()
    fresh = w.synsets()[:6]
    if not os.path.exists(carry):
        len({x for x in fresh})
        with open(carry, 'wb') as fh:
            pickle.dump(fresh, fh)
        return []
    with open(carry, 'rb') as fh:
        old = pickle.load(fh)
    diffs = []
    byid = {}
    for x in fresh:
        byid[(x.lexicon().specifier(), x.id)] = x
    pairs = []
    for a in old:
        for b in old:
            fa = byid.get((a.lexicon().specifier(), a.id))
            fb = byid.get((b.lexicon().specifier(), b.id))
            if fa is not None and fb is not None:
                pairs.append((a, b, fa, fb))
    for a, b, fa, fb in pairs:
        for name, fn in (('shortest_path', wn.taxonomy.shortest_path),
                         ('common_hypernyms', wn.taxonomy.common_hypernyms),
                         ('lowest_common_hypernyms', wn.taxonomy.lowest_common_hypernyms),
                         ('path', wn.similarity.path), ('wup', wn.similarity.wup)):
            for sim in (False, True):
                got, want = call(fn, a, b, sim), call(fn, fa, fb, sim)
                if got != want:
                    diffs.append({'call': name, 'simulate_root': sim, 'a': a.id, 'b': b.id,
                                  'carried': got, 'fresh': want})
    return diffs[:5]


if __name__ == '__main__':
    main(*sys.argv[1:7])
