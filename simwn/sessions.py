"""Client sessions: long-lived ``wn.Wordnet`` objects (and entity handles) that coexist with a
mutator adding/removing lexicons.  Oracles of C04 (membership, invariance), C10 (navigation
laws), C11 (relations, closures, paths) and C12 (expand lexicons)."""
from __future__ import annotations

import random
import warnings

from . import compare, observe
from .compare import canon
from .model import Model, K, F_SCOPE, F_NAV, spec_of
from .run import Sim, Violation
from .world import SimBudget

import wn

INFERRED = '*INFERRED*'
F_GRS = 'C11-get-related-synsets-without-arguments'


def tkey(ss):
    """Representation of a relation target synset (placeholders carry only their ILI)."""
    if ss.id == INFERRED:
        return {'inferred': ss._ili}
    return observe.ekey(ss)


def lexspec(e):
    return e.lexicon().specifier()


class SessionSim(Sim):
    session_oracles: tuple = ()
    configs_per_state = 4
    p_carried = 0.004          # sessions whose handles are carried into another interpreter
    evals = 0

    def __init__(self, *a, **kw):
        super().__init__(*a, **kw)
        self.retained = []
        self.before_installed = []

    # -- configuration of sessions --------------------------------------------------------
    def session_configs(self, rng):
        m = self.m
        inst = list(m.installed)
        if not inst:
            return []
        cfgs = [{}]                                   # default mode
        docs = self.u['lexicons']
        for sp in inst:
            if m.idx[sp].base is None:
                fam = [sp] + m.extensions_of(sp)
                cfgs.append({'lexicon': ' '.join(fam)})
                if len(fam) > 1:
                    cfgs.append({'lexicon': sp})                  # base without its extensions
                    cfgs.append({'lexicon': rng.choice(fam[1:])})  # an extension alone
            cfgs.append({'lexicon': sp})
        ids = sorted({docs[sp]['id'] for sp in inst})
        for i in ids:
            if sum(1 for sp in inst if docs[sp]['id'] == i) > 1:
                cfgs.append({'lexicon': '%s:*' % i})
        for lang in sorted({docs[sp]['language'] for sp in inst}):
            cfgs.append({'lang': lang})
        if len(inst) >= 2:
            cfgs.append({'lexicon': ' '.join(rng.sample(inst, 2))})
        out = []
        seen = set()
        rng.shuffle(cfgs)
        for c in cfgs:
            k = canon(c)
            if k not in seen:
                seen.add(k)
                out.append(c)
        return out

    def with_expand(self, cfg, rng):
        """Add an expand argument (C12 / C04)."""
        inst = self.m.installed
        r = rng.random()
        c = dict(cfg)
        if r < 0.35:
            pass                       # default expand
        elif r < 0.55:
            c['expand'] = ''
        elif r < 0.8 and inst:
            c['expand'] = rng.choice(inst)
        elif r < 0.9 and len(inst) >= 2:
            c['expand'] = ' '.join(rng.sample(inst, 2))
        else:
            c['expand'] = '*'
        return c

    def open(self, cfg):
        with warnings.catch_warnings(record=True) as wlist:
            warnings.simplefilter('always')
            try:
                w = wn.Wordnet(lexicon=cfg.get('lexicon'), lang=cfg.get('lang'),
                               expand=cfg.get('expand'))
            except wn.Error as e:
                return None, [], e
        return w, [str(x.message) for x in wlist if issubclass(x.category, wn.WnWarning)], None

    def model_scope(self, cfg):
        S, default = self.m.scope(cfg.get('lexicon'), cfg.get('lang'))
        E, missing = self.m.expand_set(S, default, cfg.get('expand'))
        return S, default, E, missing

    # -- driver -----------------------------------------------------------------------------
    def do(self, op):
        self.before_installed = list(self.m.installed)
        super().do(op)

    def after_op(self, op):
        super().after_op(op)
        if not self.session_oracles:
            return
        rng = random.Random('%s:sessions:%d' % (self.seed, self.step))
        self.W.begin_op(budget=self.budget * 50)
        try:
            with warnings.catch_warnings():
                if self.W.strict_warnings:
                    # a host (or CI configuration) that turns deprecation warnings into
                    # errors; queries only - what happens during add/remove is not judged
                    warnings.filterwarnings('error', category=DeprecationWarning)
                    warnings.filterwarnings('error', category=PendingDeprecationWarning)
                if 'invariance' in self.session_oracles:
                    self.check_invariance(op)
                cfgs = self.session_configs(rng)[:self.configs_per_state]
                for cfg in cfgs:
                    if 'expand' in self.session_oracles or 'invariance' in self.session_oracles:
                        cfg = self.with_expand(cfg, rng)
                    elif 'expand' not in cfg:
                        cfg = dict(cfg, expand='')
                    self.run_session(cfg, rng)
        finally:
            self.W.end_op()

    def run_session(self, cfg, rng):
        S, default, E, missing = self.model_scope(cfg)
        w, warns, exc = self.open(cfg)
        SessionSim.evals += 1
        if exc is not None:
            if S and (cfg.get('expand') in (None, '') or self.m.select(cfg['expand'])):
                raise self.violation('session-open', 'Wordnet() raised although the request '
                                     'matches lexicons', {'cfg': cfg, 'exc': repr(exc)})
            return
        obsS = sorted({lx.specifier() for lx in w.lexicons()})
        if obsS != sorted(S):
            self.probe('scope-differs-from-model(C08)')
            return
        ctx = {'cfg': cfg, 'S': S, 'default': default, 'E': E}
        if default:
            self.probe('session-default-mode')
        elif any(self.m.idx[sp].base is not None and self.m.idx[sp].base not in S for sp in S):
            self.probe('session-extension-without-base')
        elif any(x not in S for sp in S for x in self.m.extensions_of(sp)):
            self.probe('session-base-without-extension')
        if 'membership' in self.session_oracles:
            self.check_membership(w, ctx)
        if 'nav' in self.session_oracles:
            self.check_nav(w, ctx, rng)
            if not default and self.m.installed:
                # the same selection with expand lexicons: relation targets that the
                # selection lacks come back as placeholders
                cfg2 = dict(cfg, expand='*')
                w2, _w, exc2 = self.open(cfg2)
                if exc2 is None:
                    self.check_placeholder_translate(w2, dict(ctx, cfg=cfg2))
        if 'relations' in self.session_oracles:
            self.check_relations(w, ctx, rng)
        if ('relations' in self.session_oracles or 'nav' in self.session_oracles) \
                and rng.random() < self.p_carried:
            self.check_carried_handles(w, ctx, rng)
        if 'expand' in self.session_oracles:
            self.check_expand(w, ctx, warns, missing, rng)
        if 'invariance' in self.session_oracles and not default and len(self.retained) < 4:
            handles = ([('w', x) for x in w.words()[:2]] + [('s', x) for x in w.senses()[:2]]
                       + [('ss', x) for x in w.synsets()[:2]])
            self.retained.append({'cfg': cfg, 'w': w, 'S': S, 'E': E,
                                  'tr': self.transcript(w), 'age': 0, 'handles': handles,
                                  'htr': self.handle_transcript(handles)})

    def v(self, oracle, msg, detail, tags=()):
        return self.violation(oracle, msg, detail, tags)

    # -- entity handles carried into another interpreter ---------------------------------------
    CARRIED_SCRIPT = r'''# -*- coding: utf-8 -*-
import sys, json, pickle, itertools, warnings
sys.path.insert(0, %(repo)r)
import wn
wn.config.data_directory = %(dir)r
warnings.simplefilter('ignore')
with open(%(pk)r, 'rb') as fh:
    handles = pickle.load(fh)
cfg = %(cfg)r
w = wn.Wordnet(lexicon=cfg.get('lexicon'), lang=cfg.get('lang'), expand=cfg.get('expand'))
fresh = {'w': w.words(), 's': w.senses(), 'ss': w.synsets()}
types = %(types)r
out = []
def ids(xs):
    return [[x.lexicon().specifier() if x.id != '*INFERRED*' else None, x.id] for x in xs]
for kind, h in handles:
    same = [x for x in fresh[kind] if x == h]
    rec = {'kind': kind, 'id': h.id, 'found': len(same),
           'hash_alike': all(hash(x) == hash(h) for x in same),
           'in_set': (h in set(fresh[kind])) == bool(same),
           'in_dict': all({x: 1}.get(h) == 1 for x in same)}
    if kind in ('s', 'ss'):
        rec['related'] = sorted(ids(h.get_related()))
        rec['relations'] = {k: sorted(ids(v)) for k, v in h.relations().items()}
        rec['closure'] = sorted(ids(itertools.islice(h.closure(*types), 300)))
        rec['paths'] = sorted(ids(p) for p in itertools.islice(h.relation_paths(*types), 200))
    if kind == 'w':
        rec['senses'] = ids(h.senses())
    out.append(rec)
json.dump(out, sys.stdout)
'''

    def carried_record(self, kind, h, types):
        import itertools

        def ids(xs):
            return [[x.lexicon().specifier() if x.id != INFERRED else None, x.id] for x in xs]
        rec = {}
        if kind in ('s', 'ss'):
            rec['related'] = sorted(ids(h.get_related()))
            rec['relations'] = {k: sorted(ids(v)) for k, v in h.relations().items()}
            rec['closure'] = sorted(ids(itertools.islice(h.closure(*types), 300)))
            rec['paths'] = sorted(ids(p) for p in
                                  itertools.islice(h.relation_paths(*types), 200))
        if kind == 'w':
            rec['senses'] = ids(h.senses())
        return rec

    def check_carried_handles(self, w, ctx, rng):
        """Entity objects pickled here (after having been hashed, as any set or dict use
        does) and unpickled by an interpreter running under another hash seed - a worker
        process, an on-disk cache - still denote the same stored entities: they are equal to
        and hash like freshly fetched ones and answer relation queries identically."""
        import json
        import os
        import pickle
        import subprocess
        import sys
        from . import world as _world
        handles = ([('ss', x) for x in w.synsets()[:5]] + [('s', x) for x in w.senses()[:4]]
                   + [('w', x) for x in w.words()[:3]])
        if not handles:
            return
        types = tuple(sorted(self.m.reltypes))[:6]
        {h for _k, h in handles}                       # hashed before pickling
        here = [self.carried_record(k, h, types) for k, h in handles]
        wd = self.W.workdir('carried-%d-%d' % (self.step, SessionSim.evals))
        pk = os.path.join(wd, 'handles.pickle')
        try:
            with open(pk, 'wb') as fh:
                pickle.dump(handles, fh)
        except Exception as e:
            raise self.v('carried-handle', 'entity objects cannot be pickled',
                         {'cfg': ctx['cfg'], 'exc': repr(e)})
        script = os.path.join(wd, 'read.py')
        with open(script, 'w', encoding='utf-8') as fh:
            fh.write(self.CARRIED_SCRIPT % {'repo': _world.REPO, 'dir': self.W.node(self.W.cur),
                                            'pk': pk, 'cfg': ctx['cfg'], 'types': types})
        env = dict(os.environ)
        env['PYTHONDONTWRITEBYTECODE'] = '1'
        cur = env.get('PYTHONHASHSEED', '0')
        env['PYTHONHASHSEED'] = rng.choice([x for x in ('0', '1', '17', '4242', '99')
                                            if x != cur])
        self.W.restart()          # the other interpreter is the only user meanwhile
        p = subprocess.run([sys.executable, '-B', script], env=env, capture_output=True,
                           timeout=300)
        if p.returncode != 0:
            raise self.v('carried-handle', 'using entity objects unpickled in another '
                         'interpreter failed', {'cfg': ctx['cfg'],
                                                'stderr': p.stderr.decode('utf-8', 'replace')[-600:]})
        there = json.loads(p.stdout.decode('utf-8'))
        self.probe('carried-handles')
        laws = ('hash_alike', 'in_set', 'in_dict') if 'nav' in self.session_oracles else ()
        for (kind, h), a, b in zip(handles, here, there):
            for law in laws:
                if not b[law] or b['found'] != 1:
                    raise self.v('carried-handle', 'an entity object carried into an '
                                 'interpreter with another hash seed is not equal to / does '
                                 'not hash like the freshly fetched object of the same entity '
                                 '(%s)' % law, {'cfg': ctx['cfg'], 'kind': kind,
                                                'entity': observe.ekey(h), 'there': b,
                                                'hashseed_there': env['PYTHONHASHSEED']})
            for k, v in a.items():
                if json.loads(json.dumps(v)) != b.get(k):
                    raise self.v('carried-handle', 'an entity object carried into an '
                                 'interpreter with another hash seed answers %s differently'
                                 % k, {'cfg': ctx['cfg'], 'kind': kind,
                                       'entity': observe.ekey(h), 'here': v, 'there': b.get(k),
                                       'hashseed_there': env['PYTHONHASHSEED']})

    # -- C04: membership --------------------------------------------------------------------
    def check_membership(self, w, ctx):
        S, default = set(ctx['S']), ctx['default']
        m = self.m

        def allowed(owner_spec):
            if default:
                # the whole extension family: the root base lexicon with all its (transitive)
                # extensions.  A single relation step is narrower in the code (own lexicon,
                # its bases, its extensions), but multi-step traversals (closure, paths) may
                # legitimately pass through the base into a sibling extension.
                root = (m.bases_of(owner_spec) or [owner_spec])[-1]
                return set(x for x in [root] + m.extensions_of(root) if x in m.installed)
            return S

        def chk(e, origin, via, home=None):
            if getattr(e, 'id', None) == INFERRED:
                return
            sp = lexspec(e)
            ok = allowed(home) if (default and home) else S
            if sp not in ok:
                raise self.v('membership', '%s returned an entity of a lexicon outside the '
                             'selection' % via,
                             {'cfg': ctx['cfg'], 'origin': origin, 'entity': repr(e),
                              'lexicon': sp, 'allowed': sorted(ok)})

        def safe(fn):
            try:
                with warnings.catch_warnings():
                    warnings.simplefilter('ignore', wn.WnWarning)
                    return fn()
            except wn.Error:
                return None

        for x in w.words():
            chk(x, 'words()', 'Wordnet.words()')
            home = lexspec(x)
            for s in x.senses():
                chk(s, repr(x), 'Word.senses()', home)
            for ss in safe(x.synsets) or []:
                chk(ss, repr(x), 'Word.synsets()', home)
            for d in safe(x.derived_words) or []:
                chk(d, repr(x), 'Word.derived_words()', home)
        for s in w.senses():
            chk(s, 'senses()', 'Wordnet.senses()')
            home = lexspec(s)
            for name, fn in (('Sense.word()', s.word), ('Sense.synset()', s.synset)):
                e = safe(fn)
                if e is not None:
                    chk(e, repr(s), name, home)
            for t in s.get_related():
                chk(t, repr(s), 'Sense.get_related()', home)
            for t in s.get_related_synsets('*'):
                chk(t, repr(s), 'Sense.get_related_synsets()', home)
            for r, t in s.relation_map().items():
                if r.lexicon().specifier() not in (allowed(home) if default else S):
                    raise self.v('membership', 'Sense.relation_map() reports a relation '
                                 'defined by a lexicon outside the selection',
                                 {'cfg': ctx['cfg'], 'origin': repr(s), 'relation': repr(r),
                                  'lexicon': r.lexicon().specifier()})
        obs_ilis = set()
        for ss in w.synsets():
            chk(ss, 'synsets()', 'Wordnet.synsets()')
            home = lexspec(ss)
            if ss.ili is not None and ss.ili.id:
                obs_ilis.add(ss.ili.id)
            for s in ss.senses():
                chk(s, repr(ss), 'Synset.senses()', home)
            for x in safe(ss.words) or []:
                chk(x, repr(ss), 'Synset.words()', home)
            for t in ss.get_related():
                chk(t, repr(ss), 'Synset.get_related()', home)
            for ts in ss.relations().values():
                for t in ts:
                    chk(t, repr(ss), 'Synset.relations()', home)
            n = 0
            for t in ss.closure('hypernym', 'instance_hypernym', 'hyponym'):
                chk(t, repr(ss), 'Synset.closure()', home)
                n += 1
                if n > 40:
                    break
            # ILIs of every synset handed out by taxonomy functions, the simulated root and
            # inferred placeholders included, belong to the selection too
            k0 = 0
            for path in ss.hypernym_paths(simulate_root=True):
                k0 += 1
                if k0 > 6:
                    break
                for node in path:
                    ili = node.ili
                    if ili is None:
                        continue
                    if node.id in (INFERRED, '*ROOT*'):
                        ok_ili = (node.id == INFERRED and ili.id is not None
                                  and ili.id == node._ili)
                    elif ili.id is None:
                        ok_ili = (self.m.idx[lexspec(node)].synset[node.id].get('ili') == 'in')
                    else:
                        ok_ili = (self.m.idx[lexspec(node)].synset[node.id].get('ili')
                                  == ili.id)
                    if not ok_ili:
                        raise self.v('membership', 'a synset obtained through hypernym_paths('
                                     'simulate_root=True) reports an ILI that is not its own',
                                     {'cfg': ctx['cfg'], 'origin': repr(ss), 'node': repr(node),
                                      'ili': [ili.id, ili.status, ili.definition()]})
            if not ctx['E']:
                for r, t in ss.relation_map().items():
                    if r.lexicon().specifier() not in (allowed(home) if default else S):
                        raise self.v('membership', 'Synset.relation_map() reports a relation '
                                     'defined by a lexicon outside the selection',
                                     {'cfg': ctx['cfg'], 'origin': repr(ss),
                                      'relation': repr(r),
                                      'lexicon': r.lexicon().specifier()})
        if not default:
            for i in w.ilis():
                if i.id is not None and i.id not in obs_ilis:
                    raise self.v('membership', 'Wordnet.ilis() returned an ILI that no synset '
                                 'of the selection carries', {'cfg': ctx['cfg'], 'ili': i.id})
            # by-id lookups must not reach outside the selection
            for sp in self.m.installed:
                if sp in S:
                    continue
                ix = self.m.idx[sp]
                for ss in ix.local_synsets()[:2]:
                    i = ss.get('ili')
                    if i and i != 'in' and i not in obs_ilis:
                        got = safe(lambda: w.ili(i))
                        if got is not None:
                            raise self.v('membership', 'Wordnet.ili(id) returned an ILI that '
                                         'no synset of the selection carries',
                                         {'cfg': ctx['cfg'], 'ili': i})
        # lookups by identifier: an id that only lexicons outside the selection declare is
        # unknown to this Wordnet; an id declared inside AND outside resolves inside
        if not default:
            for sp in self.m.installed:
                if sp in S:
                    continue
                ix = self.m.idx[sp]
                for kind, elems, fn in (
                        ('word', [e['id'] for e in ix.local_entries()[:2]], w.word),
                        ('sense', [s_['id'] for s_, _e in ix.local_senses()[:2]], w.sense),
                        ('synset', [x['id'] for x in ix.local_synsets()[:2]], w.synset)):
                    for i in elems:
                        got = safe(lambda: fn(i))
                        if got is not None:
                            chk(got, '%s(%r)' % (kind, i), 'Wordnet.%s(id)' % kind)
        # form searches
        forms = []
        for x in w.words()[:3]:
            forms.append(str(x.lemma()))
        for sp in self.m.installed:
            for e in self.m.idx[sp].local_entries()[:1]:
                forms.append(e['lemma']['writtenForm'])
        for f in forms[:5]:
            for e in w.words(f):
                chk(e, 'words(%r)' % f, 'Wordnet.words(form)')
            for e in w.senses(f):
                chk(e, 'senses(%r)' % f, 'Wordnet.senses(form)')
            for e in w.synsets(f):
                chk(e, 'synsets(%r)' % f, 'Wordnet.synsets(form)')
            # ... and with a part-of-speech filter
            for pos in ('a', 's', 'n'):
                for e in w.words(f, pos):
                    chk(e, 'words(%r, %r)' % (f, pos), 'Wordnet.words(form, pos)')
                for e in w.senses(f, pos=pos):
                    chk(e, 'senses(%r, %r)' % (f, pos), 'Wordnet.senses(form, pos)')
                for e in w.synsets(f, pos=pos):
                    chk(e, 'synsets(%r, %r)' % (f, pos), 'Wordnet.synsets(form, pos)')
                if default or pos == 'n' or f is not forms[0]:
                    continue
                kw = {'lexicon': ctx['cfg'].get('lexicon'), 'lang': ctx['cfg'].get('lang')}
                for fn, what in ((wn.words, 'wn.words'), (wn.senses, 'wn.senses'),
                                 (wn.synsets, 'wn.synsets')):
                    for e in safe(lambda: fn(f, pos=pos, **kw)) or []:
                        chk(e, '%s(%r, pos=%r, ...)' % (what, f, pos),
                            '%s(form, pos, lexicon, lang)' % what)

    # -- C04: invariance --------------------------------------------------------------------
    def transcript(self, w, strip_annotations=False):
        img = observe.image(w, relations=True)
        for wd in img['words'].values():
            for f in wd['forms']:
                f['tags'] = [] if strip_annotations else sorted(map(canon, f['tags']))
                f['prons'] = [] if strip_annotations else sorted(map(canon, f['prons']))
        for s in img['senses'].values():
            for k in ('examples', 'frames'):
                s[k] = sorted(s[k])
            s['counts'] = sorted(map(canon, s['counts']))
            for k in s['relations']:
                s['relations'][k] = sorted(map(canon, s['relations'][k]))
        for key, ss in img['synsets'].items():
            ss['examples'] = sorted(ss['examples'])
            for k in ss['relations']:
                ss['relations'][k] = sorted(map(canon, ss['relations'][k]))
        ex = {}
        for ss in w.synsets():
            ex[observe.ekey(ss)] = sorted(canon(tkey(t)) for t in ss.get_related())
        img['expanded'] = ex
        img['ilis'] = sorted(canon([i.id, i.status, i.definition(), observe._meta(i.metadata())])
                             for i in w.ilis())
        img['expand'] = sorted(lx.specifier() for lx in w.expanded_lexicons())
        # form searches with a part-of-speech filter
        fs = {}
        for x in w.words()[:2]:
            f = str(x.lemma())
            for pos in (None, x.pos, 'a' if x.pos != 'a' else 's'):
                fs['%s/%s' % (f, pos)] = [sorted(observe.ekey(e) for e in w.words(f, pos)),
                                          sorted(observe.ekey(e) for e in w.senses(f, pos)),
                                          sorted(observe.ekey(e) for e in w.synsets(f, pos))]
        img['form_pos_searches'] = fs
        try:
            img['describe'] = w.describe()
        except TypeError:
            img['describe'] = None      # (parts of speech are sorted; a synset may have none)
        for lx in img['lexicons'].values():
            # which other lexicons exist is not a result "of the restricted Wordnet"
            lx.pop('extensions', None)
            lx.pop('extensions_all', None)
            lx.pop('requires', None)
        return img

    def handle_transcript(self, handles):
        """What long-lived entity objects (not re-fetched) report."""
        out = []
        for kind, e in handles:
            try:
                if kind == 'w':
                    o = observe.word_obs(e)
                    for f in o['forms']:
                        f['tags'] = sorted(map(canon, f['tags']))
                        f['prons'] = sorted(map(canon, f['prons']))
                elif kind == 's':
                    o = observe.sense_obs(e)
                    o['relations'] = {k: sorted(map(canon, v)) for k, v in o['relations'].items()}
                    o['examples'] = sorted(o['examples'])
                    o['frames'] = sorted(o['frames'])
                    o['counts'] = sorted(map(canon, o['counts']))
                else:
                    o = observe.synset_obs(e)
                    o['relations'] = {k: sorted(map(canon, v)) for k, v in o['relations'].items()}
                    o['examples'] = sorted(o['examples'])
                    o['related'] = sorted(canon(tkey(t)) for t in e.get_related())
            except wn.Error:
                o = {'error': 'wn.Error'}
            out.append([kind, e.id, o])
        return out

    def check_invariance(self, op):
        before, after = set(self.before_installed), set(self.m.installed)
        touched = before ^ after
        if op['op'] == 'remove' and not getattr(self, 'last', {}).get('faulted'):
            # removed and re-added within one op cannot happen; removals touch their victims
            pass
        keep = []
        if op['op'] == 'add_ili' or (op['op'] == 'external' and False):
            # an index load legitimately changes ILI status/definitions everywhere
            for ses in self.retained:
                ses['tr'] = self.transcript(ses['w'])
                ses['htr'] = self.handle_transcript(ses['handles'])
        for ses in self.retained:
            S, default, E, missing = self.model_scope(ses['cfg'])
            if touched & (set(ses['S']) | set(ses['E'])) or S != ses['S'] or E != ses['E'] \
                    or not set(ses['S']) <= after:
                continue                      # legitimately affected: drop the session
            ses['age'] += 1
            if touched:
                self.probe('invariance-compared')
                ext_annot = any(self.m.idx[x].base in ses['S']
                                and self.m.annotated_entries(x) for x in touched
                                if x in self.m.idx)
                hnow = self.handle_transcript(ses['handles'])
                if hnow != ses['htr']:
                    d = compare.diff(ses['htr'], hnow)
                    only_annot = (ext_annot and F_SCOPE in compare.ENABLED_FINDINGS and d
                                  and all(('/tags' in x[0] or '/prons' in x[0]) for x in d))
                    if only_annot:
                        compare.note_known(F_SCOPE)
                        ses['htr'] = hnow
                    else:
                        path, msg, detail = d[0] if d else ('?', 'differs', None)
                        raise self.v('invariance', 'result reported by a long-lived entity '
                                     'object of a Wordnet restricted to S changed when lexicons '
                                     'outside S and its expand set were %s'
                                     % ('added' if after - before else 'removed'),
                                     {'cfg': ses['cfg'], 'S': ses['S'], 'E': ses['E'], 'op': op,
                                      'touched': sorted(touched), 'path': path, 'diff': detail})
                for label, w in (('retained', ses['w']), ('fresh', None)):
                    if w is None:
                        w, _, exc = self.open(ses['cfg'])
                        if exc is not None:
                            raise self.v('invariance', 'Wordnet() with unchanged arguments '
                                         'raises after an unrelated mutation',
                                         {'cfg': ses['cfg'], 'op': op, 'exc': repr(exc)})
                    now = self.transcript(w)
                    SessionSim.evals += 1
                    if now != ses['tr']:
                        d = compare.diff(ses['tr'], now)
                        annot_only = False
                        if ext_annot and F_SCOPE in compare.ENABLED_FINDINGS:
                            if self.transcript(w, True) == self._strip(ses['tr']):
                                annot_only = True
                        if annot_only:
                            compare.note_known(F_SCOPE)
                            ses['tr'] = now
                            continue
                        path, msg, detail = d[0] if d else ('?', 'differs', None)
                        from .run import generalize
                        raise self.v('invariance', 'result of a Wordnet restricted to S '
                                     'changed when lexicons outside S and its expand set were '
                                     '%s (%s object): %s' % (
                                         'added' if after - before else 'removed', label,
                                         generalize(path)),
                                     {'cfg': ses['cfg'], 'S': ses['S'], 'E': ses['E'],
                                      'op': op, 'touched': sorted(touched), 'path': path,
                                      'diff': detail})
            keep.append(ses)
        self.retained = keep

    @staticmethod
    def _strip(tr):
        import copy
        t = copy.deepcopy(tr)
        for wd in t['words'].values():
            for f in wd['forms']:
                f['tags'] = []
                f['prons'] = []
        return t

    # -- C10: navigation laws ---------------------------------------------------------------
    def check_nav(self, w, ctx, rng):
        m = self.m
        S, default = ctx['S'], ctx['default']
        exp = m.image(S, relations=False, default_mode=default)
        obs = observe.image(w, relations=False)
        for part in ('senses', 'words', 'synsets'):
            d = compare.diff(exp[part], obs[part], '/' + part)
            if d:
                from .run import generalize
                path, msg, detail = d[0]
                raise self.v('nav-image', '%s: %s' % (generalize(path), msg),
                             {'cfg': ctx['cfg'], 'path': path, 'diff': detail})
        SessionSim.evals += 1
        # inverse navigation + images + equality/hash
        objs = {'w': {}, 's': {}, 'ss': {}}

        def rec(kind, e):
            objs[kind].setdefault(observe.ekey(e), []).append(e)
            return e

        for x in w.words():
            rec('w', x)
        for ss in w.synsets():
            rec('ss', ss)
        for s in w.senses():
            rec('s', s)
            k = observe.ekey(s)
            want = exp['senses'].get(k, {})
            for nav, kind, field in ((s.word, 'w', 'word'), (s.synset, 'ss', 'synset')):
                try:
                    e = nav()
                except wn.Error:
                    continue
                rec(kind, e)
                declared = want.get(field)
                dk = declared.want if isinstance(declared, compare.Ambiguous) else declared
                if not isinstance(dk, str) or observe.ekey(e) != dk:
                    continue
                back = e.senses()
                for b in back:
                    rec('s', b)
                if s not in back:
                    raise self.v('nav-inverse', 'sense is missing from %s().senses() of its '
                                 'own %s' % (field, field),
                                 {'cfg': ctx['cfg'], 'sense': k, field: dk,
                                  'senses': [observe.ekey(b) for b in back]})
        for x in w.words():
            try:
                a = x.synsets()
                b = [s.synset() for s in x.senses()]
            except wn.Error:
                continue
            if [observe.ekey(i) for i in a] != [observe.ekey(i) for i in b] or a != b:
                raise self.v('nav-image-of-senses', 'Word.synsets() is not the image of '
                             'Word.senses()', {'cfg': ctx['cfg'], 'word': observe.ekey(x)})
        full = m.image(S, relations=True, default_mode=default)
        for x in w.words():
            k = observe.ekey(x)
            want = []
            ok = True
            for sk in exp['words'][k]['senses'].groups:
                for s1 in sk:
                    for r in full['senses'][s1]['relations']['senses'].items:
                        if r['name'] != 'derivation':
                            continue
                        tw = full['senses'].get(r['target'], {}).get('word')
                        if isinstance(tw, compare.Ambiguous):
                            tw = tw.want
                        if not isinstance(tw, str):
                            ok = False
                        want.append(tw)
            if not ok:
                continue
            try:
                got = [observe.ekey(d) for d in x.derived_words()]
            except wn.Error:
                continue
            # one word per distinct (sense, derived sense) link; exact duplicates collapse
            if sorted(set(got)) != sorted(set(want)) or len(got) < len(set(want)):
                raise self.v('derived-words', 'Word.derived_words() is not the image of the '
                             'derivation relations of its senses',
                             {'cfg': ctx['cfg'], 'word': k, 'observed': got, 'expected': want})
        for ss in w.synsets():
            try:
                a = ss.words()
                b = [s.word() for s in ss.senses()]
                lem = ss.lemmas()
            except wn.Error:
                continue
            if [observe.ekey(i) for i in a] != [observe.ekey(i) for i in b] or a != b \
                    or [str(i) for i in lem] != [str(i.lemma()) for i in b]:
                raise self.v('nav-image-of-senses', 'Synset.words()/lemmas() is not the image '
                             'of Synset.senses()', {'cfg': ctx['cfg'],
                                                    'synset': observe.ekey(ss)})
        for kind, table in objs.items():
            keys = sorted(table)
            for k in keys:
                group = table[k]
                for e in group[1:]:
                    if not (e == group[0] and hash(e) == hash(group[0])
                            and len({e, group[0]}) == 1):
                        raise self.v('equality', 'objects denoting the same stored entity are '
                                     'not equal / do not hash alike',
                                     {'cfg': ctx['cfg'], 'entity': k})
            for a, b in zip(keys, keys[1:]):
                if table[a][0] == table[b][0] or table[a][0] in {table[b][0]}:
                    raise self.v('equality', 'different entities compare equal',
                                 {'cfg': ctx['cfg'], 'a': a, 'b': b})
        # translation
        inst = list(m.installed)
        targets = []
        if inst:
            t = rng.choice(inst)
            targets.append({'lexicon': t})
            targets.append({'lexicon': '%s:*' % self.u['lexicons'][t]['id']})
            targets.append({'lang': self.u['lexicons'][t]['language']})
            # a specifier AND a language: the targets are the lexicons matching both
            langs = sorted({self.u['lexicons'][x]['language'] for x in inst})
            targets.append({'lexicon': rng.choice(['*', '%s*' % self.u['lexicons'][t]['id'][0],
                                                   '%s:*' % self.u['lexicons'][t]['id']]),
                            'lang': rng.choice(langs)})
        amb = any(isinstance(v.get('synset'), compare.Ambiguous) for v in exp['senses'].values())
        for ss in w.synsets():
            key = observe.ekey(ss)
            ili = m.ili_of(key)
            for tgt in targets:
                tS = m.select(tgt.get('lexicon') or '*', tgt.get('lang'))
                want = sorted(m.synsets_with_ili(ili, tS)) if ili else []
                try:
                    with warnings.catch_warnings():
                        warnings.simplefilter('ignore')
                        got = ss.translate(**tgt)
                except wn.Error:
                    if want:
                        raise self.v('translate', 'Synset.translate() raised although the '
                                     'target matches', {'cfg': ctx['cfg'], 'synset': key,
                                                        'target': tgt})
                    continue
                SessionSim.evals += 1
                gk = sorted(observe.ekey(t) for t in got)
                if gk != want:
                    raise self.v('translate', 'Synset.translate() does not return exactly the '
                                 'target synsets sharing its ILI',
                                 {'cfg': ctx['cfg'], 'synset': key, 'ili': ili, 'target': tgt,
                                  'observed': gk, 'expected': want})
                own = {'lexicon': key.split('|')[0]}
                for t in got[:3]:
                    with warnings.catch_warnings():
                        warnings.simplefilter('ignore')
                        back = t.translate(**own)
                    if key not in [observe.ekey(b) for b in back]:
                        raise self.v('translate', 'translation is not symmetric',
                                     {'cfg': ctx['cfg'], 'synset': key,
                                      'translated': observe.ekey(t)})
        if not amb and targets:
            tgt = targets[0]
            for s in w.senses()[:6]:
                try:
                    with warnings.catch_warnings():
                        warnings.simplefilter('ignore')
                        st = s.translate(lexicon=tgt['lexicon'])
                        want = [observe.ekey(ts) for tss in s.synset().translate(
                            lexicon=tgt['lexicon']) for ts in tss.senses()]
                except wn.Error:
                    continue
                if [observe.ekey(x) for x in st] != want:
                    raise self.v('translate', 'Sense.translate() is not the image of '
                                 'Synset.translate()', {'cfg': ctx['cfg'],
                                                        'sense': observe.ekey(s)})
            for x in w.words()[:4]:
                try:
                    with warnings.catch_warnings():
                        warnings.simplefilter('ignore')
                        wt = x.translate(lexicon=tgt['lexicon'])
                        want = {observe.ekey(s): [observe.ekey(t.word()) for t in
                                                  s.translate(lexicon=tgt['lexicon'])]
                                for s in x.senses()}
                except wn.Error:
                    continue
                got = {observe.ekey(s): [observe.ekey(t) for t in ts] for s, ts in wt.items()}
                if got != want:
                    raise self.v('translate', 'Word.translate() is not the image of '
                                 'Sense.translate()', {'cfg': ctx['cfg'],
                                                       'word': observe.ekey(x)})

    def check_placeholder_translate(self, w, ctx):
        """translate() of *INFERRED* placeholders (synsets that carry only an ILI) returns
        the target synsets carrying that ILI, like any other synset."""
        m = self.m
        n = 0
        for ss in w.synsets():
            for t in ss.get_related():
                if t.id != INFERRED:
                    continue
                for tgt in list(m.installed)[:3]:
                    want = sorted(m.synsets_with_ili(t._ili, [tgt]))
                    with warnings.catch_warnings():
                        warnings.simplefilter('ignore')
                        got = sorted(observe.ekey(x) for x in t.translate(lexicon=tgt))
                    if got != want:
                        raise self.v('placeholder-translate', 'translate() of an inferred '
                                     'placeholder synset does not return the target synsets '
                                     'carrying its ILI', {'cfg': ctx['cfg'], 'ili': t._ili,
                                                          'target': tgt, 'observed': got,
                                                          'expected': want})
                    self.probe('placeholder-translate')
                n += 1
                if n > 6:
                    return

    # -- C11: relations ---------------------------------------------------------------------
    def check_relations(self, w, ctx, rng):
        m = self.m
        S, default = ctx['S'], ctx['default']
        exp = m.image(S, relations=True, default_mode=default)
        obs = observe.image(w, relations=True, nav=False)
        from .run import generalize
        for part in ('senses', 'synsets'):
            e2 = {k: {'relations': v['relations']} for k, v in exp[part].items()}
            o2 = {k: {'relations': v['relations']} for k, v in obs[part].items()}
            d = compare.diff(e2, o2, '/' + part)
            if d:
                path, msg, detail = d[0]
                raise self.v('relations', '%s: %s' % (generalize(path), msg),
                             {'cfg': ctx['cfg'], 'path': path, 'diff': detail})
        SessionSim.evals += 1
        types_all = sorted(m.reltypes)

        def rels_of(part, key, field):
            return list(exp[part][key]['relations'][field].items)

        def subset(rels, types):
            return [r for r in rels if not types or r['name'] in types]

        dup_ids = self._colliding_ids(S if not default else m.installed, 'synset')
        for ss in w.synsets():
            key = observe.ekey(ss)
            rels = rels_of('synsets', key, 'synsets')
            types = tuple(rng.sample(types_all, min(len(types_all), rng.choice([1, 2, 3])))) \
                if types_all else ()
            for args in ((), types):
                want = subset(rels, args)
                got = ss.get_related(*args)
                gk = [observe.ekey(t) for t in got]
                if len(set(gk)) != len(gk) or set(gk) != {r['target'] for r in want}:
                    raise self.v('get_related', 'Synset.get_related(%s) differs from the '
                                 'declared relations' % ', '.join(args),
                                 {'cfg': ctx['cfg'], 'synset': key, 'observed': gk,
                                  'expected': sorted({r['target'] for r in want})})
                rm = ss.relations(*args)
                want_map = {}
                for r in want:
                    want_map.setdefault(r['name'], set()).add(r['target'])
                got_map = {n: [observe.ekey(t) for t in ts] for n, ts in rm.items()}
                if {n: set(v) for n, v in got_map.items()} != want_map \
                        or any(len(set(v)) != len(v) for v in got_map.values()):
                    raise self.v('relations()', 'Synset.relations(%s) differs from the '
                                 'declared relations' % ', '.join(args),
                                 {'cfg': ctx['cfg'], 'synset': key, 'observed': got_map,
                                  'expected': {n: sorted(v) for n, v in want_map.items()}})
            self._check_relation_map(ss.relation_map(), rels, key, ctx, 'Synset')
            for meth, tl in (('hypernyms', ('hypernym', 'instance_hypernym')),
                             ('hyponyms', ('hyponym', 'instance_hyponym')),
                             ('holonyms', ('holonym', 'holo_location', 'holo_member',
                                           'holo_part', 'holo_portion', 'holo_substance')),
                             ('meronyms', ('meronym', 'mero_location', 'mero_member',
                                           'mero_part', 'mero_portion', 'mero_substance'))):
                got = {observe.ekey(t) for t in getattr(ss, meth)()}
                if got != {r['target'] for r in subset(rels, tl)}:
                    raise self.v('get_related', 'Synset.%s() differs from the declared '
                                 'relations' % meth, {'cfg': ctx['cfg'], 'synset': key,
                                                      'observed': sorted(got)})
            # closure and paths (termination: statement budget)
            graph_types = rng.choice([('hypernym', 'instance_hypernym'), (), types])
            reach = self._reach(exp, key, graph_types)
            if not dup_ids:
                got = [observe.ekey(t) for t in ss.closure(*graph_types)]
                if set(got) != reach or len(set(got)) != len(got):
                    raise self.v('closure', 'Synset.closure(%s) is not exactly the set of '
                                 'reachable synsets' % ', '.join(graph_types),
                                 {'cfg': ctx['cfg'], 'synset': key, 'observed': sorted(got),
                                  'expected': sorted(reach)})
                self.probe('closure-checked')
            n = 0
            for path in ss.relation_paths(*graph_types):
                n += 1
                pk = [observe.ekey(t) for t in path]
                if len(set(pk)) != len(pk) or key in pk:
                    raise self.v('paths', 'Synset.relation_paths() yielded a non-simple path',
                                 {'cfg': ctx['cfg'], 'synset': key, 'path': pk})
                prev = key
                for t in pk:
                    if t not in {r['target'] for r in
                                 subset(rels_of('synsets', prev, 'synsets'), graph_types)}:
                        raise self.v('paths', 'Synset.relation_paths() yielded a path that is '
                                     'not a path of the declared relations',
                                     {'cfg': ctx['cfg'], 'synset': key, 'path': pk})
                    prev = t
                if n > 200:
                    break
            if n and reach and key in reach:
                self.probe('paths-on-cycle')
        # the same stored entity answers the same whatever route produced the handle:
        # by identifier, by enumeration, or by word-form search (exact / after normalisation)
        queries = []
        for x in w.words()[:4]:
            lem = str(x.lemma())
            queries += [lem, lem.upper(), lem.lower(), lem.title()]
        for q in dict.fromkeys(queries):
            for ss in w.synsets(q):
                key = observe.ekey(ss)
                if key not in exp['synsets']:
                    continue
                want = {r['target'] for r in rels_of('synsets', key, 'synsets')}
                got = {observe.ekey(t) for t in ss.get_related()}
                if got != want:
                    raise self.v('handle-route', 'a synset found through a word-form search '
                                 'answers get_related() differently from the same synset '
                                 'obtained otherwise', {'cfg': ctx['cfg'], 'query': q,
                                                        'synset': key, 'observed': sorted(got),
                                                        'expected': sorted(want)})
                self.probe('handle-by-form-search')
            for sn in w.senses(q):
                key = observe.ekey(sn)
                if key not in exp['senses']:
                    continue
                want = {r['target'] for r in rels_of('senses', key, 'senses')}
                got = {observe.ekey(t) for t in sn.get_related()}
                want2 = {r['target'] for r in rels_of('senses', key, 'synsets')}
                got2 = {observe.ekey(t) for t in sn.get_related_synsets('*')}
                if got != want or got2 != want2:
                    raise self.v('handle-route', 'a sense found through a word-form search '
                                 'answers relation queries differently from the same sense '
                                 'obtained otherwise', {'cfg': ctx['cfg'], 'query': q,
                                                        'sense': key})
            for x in w.words(q):
                key = observe.ekey(x)
                full = m.image(S, relations=False, default_mode=default)
                if key not in full['words']:
                    continue
                d = compare.diff(full['words'][key]['senses'],
                                 [observe.ekey(t) for t in x.senses()])
                if d:
                    raise self.v('handle-route', 'a word found through a word-form search '
                                 'reports other senses than the same word obtained otherwise',
                                 {'cfg': ctx['cfg'], 'query': q, 'word': key, 'diff': d[0][2]})
        for s in w.senses():
            key = observe.ekey(s)
            rs = rels_of('senses', key, 'senses')
            rss = rels_of('senses', key, 'synsets')
            types = tuple(rng.sample(types_all, min(len(types_all), rng.choice([1, 2])))) \
                if types_all else ()
            for args in ((), types):
                want = subset(rs, args)
                gk = [observe.ekey(t) for t in s.get_related(*args)]
                if len(set(gk)) != len(gk) or set(gk) != {r['target'] for r in want}:
                    raise self.v('get_related', 'Sense.get_related(%s) differs from the '
                                 'declared relations' % ', '.join(args),
                                 {'cfg': ctx['cfg'], 'sense': key, 'observed': gk,
                                  'expected': sorted({r['target'] for r in want})})
                rm = s.relations(*args)
                want_map = {}
                for r in want:
                    want_map.setdefault(r['name'], set()).add(r['target'])
                got_map = {n: {observe.ekey(t) for t in ts} for n, ts in rm.items()}
                if got_map != want_map:
                    raise self.v('relations()', 'Sense.relations(%s) differs from the '
                                 'declared relations' % ', '.join(args),
                                 {'cfg': ctx['cfg'], 'sense': key})
                want2 = subset(rss, args)
                got2 = [observe.ekey(t) for t in s.get_related_synsets(*args)]
                if len(set(got2)) != len(got2) or set(got2) != {r['target'] for r in want2}:
                    if not args and not got2 and F_GRS in compare.ENABLED_FINDINGS:
                        compare.note_known(F_GRS)
                    else:
                        raise self.v('get_related_synsets', 'Sense.get_related_synsets(%s) '
                                     'differs from the declared relations' % ', '.join(args),
                                     {'cfg': ctx['cfg'], 'sense': key, 'observed': got2,
                                      'expected': sorted({r['target'] for r in want2})},
                                     tags=['no-arguments'] if not args else [])
            self._check_relation_map(s.relation_map(), rs, key, ctx, 'Sense')
            got_c = []
            for t in s.closure(*types):
                got_c.append(observe.ekey(t))
                if len(got_c) > 300:
                    raise self.v('termination', 'Sense.closure() does not terminate',
                                 {'cfg': ctx['cfg'], 'sense': key})
            if not self._colliding_sense_ids(S if not default else m.installed):
                seen_, todo_ = set(), [key]
                while todo_:
                    x_ = todo_.pop()
                    for r in subset(rels_of('senses', x_, 'senses'), types) \
                            if x_ in exp['senses'] else []:
                        if r['target'] not in seen_:
                            seen_.add(r['target'])
                            todo_.append(r['target'])
                if set(got_c) != seen_ or len(set(got_c)) != len(got_c):
                    raise self.v('closure', 'Sense.closure(%s) is not exactly the set of '
                                 'reachable senses' % ', '.join(types),
                                 {'cfg': ctx['cfg'], 'sense': key, 'observed': sorted(got_c),
                                  'expected': sorted(seen_)})
            for path in s.relation_paths(*types):
                pk = [observe.ekey(t) for t in path]
                if len(set(pk)) != len(pk) or key in pk:
                    raise self.v('paths', 'Sense.relation_paths() yielded a non-simple path',
                                 {'cfg': ctx['cfg'], 'sense': key, 'path': pk})

    def _check_relation_map(self, rmap, rels, key, ctx, what):
        got = set()
        for r, t in rmap.items():
            got.add(canon([r.name, r.source_id, observe.ekey(t), r.lexicon().specifier(),
                           r.subtype]))
            if r.target_id != t.id:
                raise self.v('relation_map', '%s.relation_map(): Relation.target_id differs '
                             'from the mapped target' % what, {'cfg': ctx['cfg'], 'source': key})
            # "the right ... defining lexicon": the installed lexicon itself, not a look-alike
            lx = r.lexicon()
            doc = self.m.docs.get(lx.specifier())
            if doc is not None and lx.specifier() in self.m.installed:
                if '_lexobjs' not in ctx:
                    ctx['_lexobjs'] = wn.lexicons()
                same = [x for x in ctx['_lexobjs'] if x.specifier() == lx.specifier()]
                if (lx.label, lx.language, lx.email, lx.license) != (
                        doc['label'], doc['language'], doc['email'], doc['license']) \
                        or (len(same) == 1 and lx != same[0]):
                    raise self.v('relation_map', '%s.relation_map(): Relation.lexicon() is not '
                                 'the installed lexicon that defines the relation' % what,
                                 {'cfg': ctx['cfg'], 'source': key, 'lexicon': lx.specifier(),
                                  'observed_label': lx.label, 'installed_label': doc['label']})
        want = {canon([r['name'], r['source'], r['target'], r['lexicon'],
                       r['meta'].get('type')]) for r in rels}
        if got != want:
            raise self.v('relation_map', '%s.relation_map() differs from the declared '
                         'relations (name, source, target, lexicon, dc:type)' % what,
                         {'cfg': ctx['cfg'], 'source': key,
                          'missing': sorted(want - got)[:4], 'extra': sorted(got - want)[:4]})

    def _reach(self, exp, key, types):
        seen, todo = set(), [key]
        while todo:
            x = todo.pop()
            for r in exp['synsets'].get(x, {'relations': {'synsets': compare.SetOf([])}}
                                        )['relations']['synsets'].items:
                if types and r['name'] not in types:
                    continue
                if r['target'] not in seen:
                    seen.add(r['target'])
                    todo.append(r['target'])
        return seen

    def _colliding_sense_ids(self, specs):
        seen, dup = set(), set()
        for sp in specs:
            if sp not in self.m.installed:
                continue
            for sn, _e in self.m.idx[sp].local_senses():
                if sn['id'] in seen:
                    dup.add(sn['id'])
                seen.add(sn['id'])
        return dup

    def _colliding_ids(self, specs, kind):
        seen, dup = set(), set()
        for sp in specs:
            if sp not in self.m.installed:
                continue
            for ss in (self.m.idx[sp].local_synsets() if kind == 'synset'
                       else self.m.idx[sp].local_entries()):
                if ss['id'] in seen:
                    dup.add(ss['id'])
                seen.add(ss['id'])
        return dup

    # -- C12: expand --------------------------------------------------------------------------
    def check_expand(self, w, ctx, warns, missing, rng):
        m = self.m
        cfg, S, default, E = ctx['cfg'], ctx['S'], ctx['default'], ctx['E']
        got_e = sorted({lx.specifier() for lx in w.expanded_lexicons()})
        if got_e != sorted(E):
            raise self.v('expanded_lexicons', 'expanded_lexicons() differs from the documented '
                         'rule', {'cfg': cfg, 'S': S, 'observed': got_e, 'expected': sorted(E),
                                  'requires': {sp: m.requires(sp) for sp in S}})
        SessionSim.evals += 1
        if cfg.get('expand') is None and not default:
            warned = any('lexicon dependencies not available' in x for x in warns)
            if warned != bool(missing):
                raise self.v('warning', 'WnWarning about missing dependencies %s'
                             % ('not issued' if missing else 'issued although none is missing'),
                             {'cfg': cfg, 'missing': missing, 'warnings': warns})
            if missing:
                self.probe('missing-dependency-warned')
                for ms in missing:
                    if not any(ms in x for x in warns):
                        raise self.v('warning', 'WnWarning does not name the missing '
                                     'dependency', {'cfg': cfg, 'missing': missing,
                                                    'warnings': warns})
        # the exact ILI mapping is stated for "a synset x of lexicon L": sessions selecting
        # one lexicon (optionally with its extensions) and the default mode
        bases = {m.bases_of(sp)[-1] if m.bases_of(sp) else sp for sp in S}
        if not default and len(bases) != 1:
            return
        own_img = m.image(S, relations=True, default_mode=default)
        all_ss = w.synsets()
        if len(all_ss) > 150:          # big universe: the hubs + a seeded sample
            hubs = [x for x in all_ss[2:] if x.id.endswith('-s0')]
            all_ss = all_ss[:2] + hubs + rng.sample(all_ss[2:], 12)
        for ss in all_ss:
            key = observe.ekey(ss)
            owner = key.split('|')[0]
            lexscope = [x for x in m.family(owner) if x in m.installed] if default else S
            own = list(own_img['synsets'][key]['relations']['synsets'].items)
            types_all = sorted(m.reltypes)
            types = tuple(rng.sample(types_all, min(len(types_all), 2))) if types_all else ()
            for args in ((), ('hypernym', 'instance_hypernym'), types):
                own_t = [r['target'] for r in own if not args or r['name'] in args]
                bor = m.expanded_relations(key, lexscope, E, set(args) if args else None)
                want = {canon(t) for t in own_t} | {canon(r['target']) for r in bor}
                got = [tkey(t) for t in ss.get_related(*args)]
                gc = [canon(t) for t in got]
                if set(gc) != want or len(set(gc)) != len(gc):
                    raise self.v('expand-related', 'Synset.get_related(%s) under expand '
                                 'lexicons differs from the documented ILI mapping'
                                 % ', '.join(args),
                                 {'cfg': cfg, 'E': E, 'synset': key, 'ili': m.ili_of(key),
                                  'observed': got, 'expected_own': own_t,
                                  'expected_borrowed': [r['target'] for r in bor]})
                if bor and not args:
                    # handles RETURNED by a borrowed relation keep the configuration of the
                    # Wordnet they came from: their own relations follow the same rule
                    for t in ss.get_related()[:6]:
                        if t.id == INFERRED:
                            continue
                        tk = observe.ekey(t)
                        if tk not in own_img['synsets']:
                            continue
                        t_own = [r['target'] for r in
                                 own_img['synsets'][tk]['relations']['synsets'].items]
                        t_scope = ([x for x in m.family(tk.split('|')[0]) if x in m.installed]
                                   if default else S)
                        t_bor = m.expanded_relations(tk, t_scope, E, None)
                        want2 = {canon(x) for x in t_own} | {canon(r['target']) for r in t_bor}
                        got2 = {canon(tkey(x)) for x in t.get_related()}
                        if got2 != want2:
                            raise self.v('expand-second-hop', 'a synset returned by a relation '
                                         'under expand lexicons answers get_related() '
                                         'differently from the same synset fetched from the '
                                         'Wordnet', {'cfg': cfg, 'E': E, 'via': key,
                                                     'synset': tk, 'observed': sorted(got2),
                                                     'expected': sorted(want2)})
                        self.probe('second-hop')
                if bor and not args:
                    # placeholders translate by their ILI like any synset carrying it
                    for t in ss.get_related():
                        if t.id != INFERRED:
                            continue
                        for tgt in list(m.installed)[:2]:
                            wantt = sorted(m.synsets_with_ili(t._ili, [tgt]))
                            with warnings.catch_warnings():
                                warnings.simplefilter('ignore')
                                gott = sorted(observe.ekey(x) for x in t.translate(lexicon=tgt))
                            if gott != wantt:
                                raise self.v('expand-placeholder-translate', 'translate() of '
                                             'an inferred placeholder synset does not return '
                                             'the target synsets carrying its ILI',
                                             {'cfg': cfg, 'ili': t._ili, 'target': tgt,
                                              'observed': gott, 'expected': wantt})
                            self.probe('placeholder-translate')
                        break
                if bor:
                    self.probe('borrowed-relations')
                    if any(isinstance(r['target'], dict) for r in bor):
                        self.probe('inferred-placeholder')
                # own relations first
                own_c = {canon(t) for t in own_t}
                seen_borrowed = False
                for c in gc:
                    if c in own_c:
                        if seen_borrowed:
                            raise self.v('expand-order', 'own relations do not precede '
                                         'borrowed ones', {'cfg': cfg, 'synset': key,
                                                           'observed': got})
                    else:
                        seen_borrowed = True
            # relations(): per relation name
            bor = m.expanded_relations(key, lexscope, E, None)
            want_map = {}
            for r in own:
                want_map.setdefault(r['name'], set()).add(canon(r['target']))
            for r in bor:
                want_map.setdefault(r['name'], set()).add(canon(r['target']))
            rm = ss.relations()
            got_map = {n: [canon(tkey(t)) for t in ts] for n, ts in rm.items()}
            if {n: set(v) for n, v in got_map.items()} != want_map \
                    or any(len(set(v)) != len(v) for v in got_map.values()):
                raise self.v('expand-relations', 'Synset.relations() under expand lexicons '
                             'differs from the documented ILI mapping',
                             {'cfg': cfg, 'E': E, 'synset': key, 'observed': got_map,
                              'expected': {n: sorted(v) for n, v in want_map.items()}})
            # relation_map(): reported relation keeps the expand lexicon's source/target/lexicon
            pairs_ok = {canon([r['name'], r['source'], r['target_id'], r['lexicon'],
                               r['meta'].get('type'), r['target']]) for r in bor}
            pairs_ok |= {canon([r['name'], r['source'], r['target'].split('|', 1)[1],
                                r['lexicon'], r['meta'].get('type'), r['target']])
                         for r in own}
            keys_want = {canon(x[:5]) for x in map(lambda c: __import__('json').loads(c),
                                                   pairs_ok)}
            keys_got = set()
            for r, t in ss.relation_map().items():
                c = canon([r.name, r.source_id, r.target_id, r.lexicon().specifier(),
                           r.subtype, tkey(t)])
                keys_got.add(canon([r.name, r.source_id, r.target_id,
                                    r.lexicon().specifier(), r.subtype]))
                if c not in pairs_ok:
                    raise self.v('expand-relation-map', 'Synset.relation_map() under expand '
                                 'lexicons reports a relation/target pair the mapping does not '
                                 'produce', {'cfg': cfg, 'synset': key, 'pair': c})
            if keys_got != keys_want:
                raise self.v('expand-relation-map', 'Synset.relation_map() under expand '
                             'lexicons misses or adds relations',
                             {'cfg': cfg, 'synset': key,
                              'missing': sorted(keys_want - keys_got)[:3],
                              'extra': sorted(keys_got - keys_want)[:3]})
            # handles returned by translate() belong to a Wordnet restricted to the target
            # lexicon(s): their relations follow the default expand rule of that Wordnet
            ili0 = m.ili_of(key)
            if ili0 and len(all_ss) <= 150:
                for tgt in list(m.installed)[:3]:
                    if tgt == owner:
                        continue
                    with warnings.catch_warnings():
                        warnings.simplefilter('ignore')
                        try:
                            trans = ss.translate(lexicon=tgt)
                        except wn.Error:
                            continue
                    tS = [tgt]
                    tE, _miss = m.expand_set(tS, False, None)
                    timg = m.image(tS, relations=True)
                    for t in trans[:3]:
                        tk = observe.ekey(t)
                        if tk not in timg['synsets']:
                            continue
                        t_own = [r['target'] for r in
                                 timg['synsets'][tk]['relations']['synsets'].items]
                        t_bor = m.expanded_relations(tk, tS, tE, None)
                        want3 = {canon(x) for x in t_own} | {canon(r['target']) for r in t_bor}
                        got3 = {canon(tkey(x)) for x in t.get_related()}
                        if got3 != want3:
                            raise self.v('expand-translate-handle', 'a synset returned by '
                                         'translate(lexicon=T) does not follow the default '
                                         'expand rule of Wordnet(T)',
                                         {'cfg': cfg, 'synset': key, 'target': tgt,
                                          'translated': tk, 'expand_of_target': tE,
                                          'observed': sorted(got3), 'expected': sorted(want3)})
                        self.probe('translate-handle-relations')
                    break
            # hypernym_paths terminates (budget) through placeholders
            n = 0
            if len(all_ss) <= 150:
                for _ in ss.hypernym_paths():
                    n += 1
                    if n > 200:
                        break
        if rng.random() < 0.3 and not ctx.get('retained'):
            self.check_shortcut_handles(ctx, own_img, rng)

    def check_shortcut_handles(self, ctx, own_img, rng):
        """Words, senses and synsets obtained through the module-level functions belong to
        Wordnet(lexicon, lang) with the default expand rule: synsets reached from them
        borrow relations exactly like synsets of such a Wordnet."""
        m = self.m
        cfg, S, default = ctx['cfg'], ctx['S'], ctx['default']
        E0, _missing = m.expand_set(S, default, None)
        kw = {'lexicon': cfg.get('lexicon'), 'lang': cfg.get('lang')}

        def safe(fn, *a, **k):
            with warnings.catch_warnings():
                warnings.simplefilter('ignore')
                try:
                    return fn(*a, **k)
                except wn.Error:
                    return None

        routes = []
        ws = safe(wn.words, **kw) or []
        sn = safe(wn.senses, **kw) or []
        sy = safe(wn.synsets, **kw) or []
        for x in (rng.sample(ws, 4) if len(ws) > 4 else ws):
            routes.append(('wn.words()[i].synsets()', safe(x.synsets) or []))
            for s_ in x.senses()[:2]:
                routes.append(('wn.words()[i].senses()[j].synset()', [safe(s_.synset)]))
            y = safe(wn.word, x.id, **kw)
            if y is not None and y == x:
                routes.append(('wn.word(id).synsets()', safe(y.synsets) or []))
        for x in (rng.sample(sn, 4) if len(sn) > 4 else sn):
            routes.append(('wn.senses()[i].synset()', [safe(x.synset)]))
            y = safe(wn.sense, x.id, **kw)
            if y is not None and y == x:
                routes.append(('wn.sense(id).synset()', [safe(y.synset)]))
        for x in (rng.sample(sy, 3) if len(sy) > 3 else sy):
            routes.append(('wn.synsets()[i]', [x]))
        for via, sss in routes:
            for ss in sss[:2]:
                if ss is None:
                    continue
                key = observe.ekey(ss)
                if key not in own_img['synsets']:
                    continue
                owner = key.split('|')[0]
                lexscope = [x for x in m.family(owner) if x in m.installed] if default else S
                own = [r['target'] for r in own_img['synsets'][key]['relations']['synsets'].items]
                bor = m.expanded_relations(key, lexscope, E0, None)
                want = {canon(t) for t in own} | {canon(r['target']) for r in bor}
                got = {canon(tkey(t)) for t in ss.get_related()}
                if got != want:
                    raise self.v('expand-shortcut-handle', 'a synset reached through %s does '
                                 'not follow the default expand rule of Wordnet(lexicon, lang)'
                                 % via, {'args': kw, 'synset': key, 'expand_expected': E0,
                                         'observed': sorted(got), 'expected': sorted(want)})
                if bor:
                    self.probe('shortcut-handle-borrows')
