"""Self-tests of the simulator.

  check.py selftest determinism [PROP...]   same seeds, fresh interpreters, two different
                                            PYTHONHASHSEED values and two worker layouts:
                                            event digests, violation signatures and op
                                            counts must be identical
  check.py selftest sensitivity [ID...]     every seeded change under /verif/seeded applied to
                                            a scratch worktree must be caught by its check
"""
from __future__ import annotations

import json
import os
import subprocess
import sys
import tempfile

HERE = os.path.dirname(os.path.abspath(__file__))
VERIF = os.path.dirname(HERE)
PROPS = ['C01', 'C03', 'C04', 'C05', 'C06', 'C07', 'C08', 'C10', 'C11', 'C12', 'C19', 'C20']


def run_worker(prop, seeds, hashseed, tmp, tag):
    sf = os.path.join(tmp, 'seeds-%s-%s.json' % (prop, tag))
    of = os.path.join(tmp, 'out-%s-%s.jsonl' % (prop, tag))
    json.dump(seeds, open(sf, 'w', encoding='utf-8'))
    env = dict(os.environ)
    env['PYTHONHASHSEED'] = hashseed
    env['VERIF_DIGEST_STATE'] = '1'
    env['PYTHONDONTWRITEBYTECODE'] = '1'
    p = subprocess.Popen([sys.executable, os.path.join(HERE, 'check.py'), '--worker', prop,
                          'quick', sf, of, '600'], env=env, stdout=subprocess.PIPE,
                         stderr=subprocess.STDOUT, text=True)
    return p, of


def collect(of):
    out = {}
    if os.path.exists(of):
        for line in open(of, encoding='utf-8'):
            if line.strip():
                r = json.loads(line)
                out[r['seed']] = (r['digest'], (r.get('violation') or {}).get('signature'),
                                  r.get('ops'), json.dumps(r.get('faults'), sort_keys=True),
                                  json.dumps(r.get('known_hits'), sort_keys=True))
    return out


def determinism(props, n=None):
    bad = 0
    total = 0
    with tempfile.TemporaryDirectory(prefix='simwn-selftest-') as tmp:
        jobs = []
        for prop in props:
            k = n or {'C06': 6, 'C20': 3, 'C07': 8}.get(prop, 24)
            seeds = list(range(7001, 7001 + k))
            # layout A: one worker, hash seed 0; layout B: two workers, hash seeds 123 / 98765
            jobs.append((prop, 'A', [run_worker(prop, seeds, '0', tmp, 'A')]))
            jobs.append((prop, 'B', [run_worker(prop, seeds[0::2], '123', tmp, 'B0'),
                                     run_worker(prop, seeds[1::2], '98765', tmp, 'B1')]))
        results = {}
        for prop, tag, ws in jobs:
            merged = {}
            for p, of in ws:
                out, _ = p.communicate()
                if p.returncode != 0:
                    print('SELFTEST worker failed (%s %s): %s' % (prop, tag, out[-1500:]))
                    bad += 1
                merged.update(collect(of))
            results[(prop, tag)] = merged
        for prop in props:
            a, b = results[(prop, 'A')], results[(prop, 'B')]
            for s in sorted(set(a) | set(b)):
                total += 1
                if a.get(s) != b.get(s):
                    bad += 1
                    print('NONDETERMINISM property=%s seed=%d\n  A=%s\n  B=%s'
                          % (prop, s, a.get(s), b.get(s)))
            print('determinism %s: %d seeds compared, identical=%s'
                  % (prop, len(set(a) | set(b)), all(a.get(s) == b.get(s)
                                                     for s in set(a) | set(b))))
    print('SELFTEST determinism: %d runs compared, %d differences' % (total, bad))
    return 0 if bad == 0 and total > 0 else 2


def sensitivity(ids):
    seeded = os.path.join(VERIF, 'seeded')
    ids = ids or sorted(d for d in os.listdir(seeded)
                        if os.path.exists(os.path.join(seeded, d, 'patch.diff')))
    missed = []
    procs = []
    for i in ids:
        meta = {}
        mp = os.path.join(seeded, i, 'meta.json')
        if os.path.exists(mp):
            meta = json.load(open(mp, encoding='utf-8'))
        if meta.get('status') == 'neutralised':
            print('%s skipped: %s' % (i, meta.get('note', 'neutralised')))
            continue
        prop = meta.get('caught_by', [i.split('-')[0]])[0]
        procs.append((i, prop, subprocess.Popen(
            [os.path.join(VERIF, 'tools', 'sweep.sh'), i, prop], stdout=subprocess.PIPE,
            stderr=subprocess.STDOUT, text=True)))
        if len(procs) >= 3:
            for i2, prop2, p in procs:
                out, _ = p.communicate()
                print(out.strip()[:300])
                if ' rc=1 ' not in out:
                    missed.append(i2)
            procs = []
    for i2, prop2, p in procs:
        out, _ = p.communicate()
        print(out.strip()[:300])
        if ' rc=1 ' not in out:
            missed.append(i2)
    print('SELFTEST sensitivity: %d seeded changes, missed: %s' % (len(ids), missed or 'none'))
    return 0 if not missed else 2


def main(argv):
    if not argv or argv[0] == 'determinism':
        return determinism(argv[1:] or PROPS)
    if argv[0] == 'sensitivity':
        return sensitivity(argv[1:])
    raise SystemExit('usage: check.py selftest determinism|sensitivity')
