"""Seeded generator of *universes*: related WN-LMF lexicon documents, the resource files
that carry them, and ILI index files.  Pure function of a ``random.Random``; everything
returned is a plain JSON-able object (dict/list/str/int/bool/None).

The documents use the same key names as the WN-LMF vocabulary (and therefore as
``wn.lmf``'s TypedDicts) but are produced here independently of wn: nothing in this module
imports wn.
"""
from __future__ import annotations

import random

DC_KEYS = ['contributor', 'coverage', 'creator', 'date', 'description', 'format',
           'identifier', 'publisher', 'relation', 'rights', 'source', 'subject',
           'title', 'type']
META_KEYS = DC_KEYS + ['status', 'note', 'confidenceScore']

# strings that must survive storage unchanged
SPECIALS = ['quo"te', "ap'os", 'a<b', 'a&b', 'a>b', 'tab\there', 'nl\nhere', 'é',
            '\U0001F600 grin', 'שלום', '  lead', 'trail  ', 'dbl  sp',
            ']]>', '&amp;', '&#65;', '%s', "';--", '<!--c-->', 'été', 'a\\b',
            '猫', 'A:B', '*', '?', '¿qué?', '«ï»', 'ＡＢ\ufeffｃ', 'open <? pi', 'close ?> pi',
            'see id="zz" version="9"', "or id='zz' version='9'"]
# only in attribute values and ILI definitions (in element text the reader's whitespace
# normalisation would fold some of them, about which no property speaks)
ATTR_SPECIALS = ['c1\x96ctl', 'nel\x85x', 'ls\u2028ps\u2029x', 'nb\xa0sp', 'zw\u200bsp',
                 '\x7fdel', 'pua\ue000', 'x\ufffdy']
PLAIN = ['007', '1.50', '+1', '1e3', 'x', 'Ab c', 'foo', 'bar baz', 'lorem', 'ipsum dolor', 'N', 'v2', 'alpha', 'beta',
         'noun.cognition', 'verb.communication']     # (values that are names elsewhere)

VOCAB = ['cat', 'Cat', 'CAT', 'chat', 'résumé', 'resume', 'Resume', 'dog', 'Hund',
         '犬', 'ad hoc', 'ad-hoc', 'san josé', 'San Jose', 'run', 'ran', 'runs',
         'wolf', 'wolves', 'ox', 'oxen', 'es', 's', 'fire', 'info', 'café', 'cafe',
         'naïve', 'naive', 'дом', 'bank', 'Bank', 'spring', 'light']
POS = ['n', 'v', 'a', 's', 'r']
RARE_POS = ['t', 'c', 'p', 'x', 'u']      # phrase, conjunction, adposition, other, unknown
SYNSET_RELS = ['hypernym', 'hyponym', 'instance_hypernym', 'instance_hyponym', 'similar',
               'also', 'mero_part', 'holo_part', 'meronym', 'holonym', 'attribute',
               'x-custom', 'domain_topic']
HYPER_RELS = ['hypernym', 'hypernym', 'hypernym', 'instance_hypernym']
SENSE_RELS = ['antonym', 'derivation', 'pertainym', 'also', 'similar', 'other', 'x-sense']
SENSE_SYNSET_RELS = ['domain_topic', 'domain_region', 'exemplifies', 'other', 'x-ss']
SCRIPTS = ['Latn', 'Hira', 'Kana', 'Cyrl']
LEXFILES = ['noun.animal', 'noun.Animal', 'noun.cognition', 'verb.motion', 'adj.all', 'x.file',
            'noun.Tops', 'noun.tops']
TAG_CATS = ['tense', 'number', 'penn', 'x']
ILI_POOL = ['i%d' % i for i in range(1, 13)]
ILI_STATUSES = ['active', 'provisional', 'deprecated', 'other-status']
LEX_IDS = ['a', 'ab', 'a-b', 'zz', 'b', 'abc', 'c\u0327a']   # last one: not NFC-stable
VERSIONS = ['1', '1.0', '2', '1.0+x', '2020-rc.1', '10', '1:2.0']   # last: epoch-style
LANGS = ['en', 'es', 'en-GB', 'ja', 'en-gb']      # (tags are compared exactly)
FRAMES = ['Somebody ----s', 'Somebody ----s something', 'Something ----s',
          'It is ----ing', 'Somebody ----s somebody PP', 'ある人が----']


def spec_of(doc_or_dep) -> str:
    return '%s:%s' % (doc_or_dep['id'], doc_or_dep['version'])


class Profile(dict):
    """Swarm configuration of one universe (all knobs drawn from the run PRNG)."""

    @classmethod
    def draw(cls, rng: random.Random, **forced):
        p = cls(
            n_bases=rng.choice([1, 2, 2, 3, 3]),
            p_second_version=rng.choice([0.0, 0.4, 0.9]),
            collide=rng.choice([0.0, 0.3, 0.8, 1.0]),
            n_ext=rng.choice([0, 1, 1, 2]),
            p_ext_of_ext=rng.choice([0.0, 0.5]),
            special=rng.choice([0.0, 0.15, 0.5]),
            max_entries=rng.choice([2, 4, 8]),
            max_synsets=rng.choice([2, 4, 8]),
            p_meta=rng.choice([0.0, 0.3, 0.7]),
            p_opt=rng.choice([0.2, 0.5, 0.9]),      # optional attributes/children
            p_rel=rng.choice([0.2, 0.5, 0.8]),
            p_cycle=rng.choice([0.0, 0.3]),
            p_dup_rel=rng.choice([0.0, 0.2]),
            p_requires=rng.choice([0.0, 0.5]),
            p_members=rng.choice([0.0, 0.5, 1.0]),
            p_partial_members=rng.choice([0.0, 0.0, 0.3]),
            p_lexframe_senses=rng.choice([0.0, 0.0, 0.4]),
            p_ili=rng.choice([0.3, 0.7, 1.0]),
            ili_pool=rng.choice([3, 6, 12]),
            multi_file=rng.choice([0.0, 0.5]),
            lmf_versions=rng.choice([['1.0', '1.1', '1.2', '1.3'], ['1.1', '1.3'],
                                     ['1.0'], ['1.3']]),
            n_ili_files=rng.choice([0, 1, 2]),
            taxonomy=rng.choice([0.0, 0.5]),   # bias synset relations towards hypernym DAGs
            p_long=rng.choice([0.0, 0.0, 0.08]),
            p_no_synset_pos=0.0,               # Synset@partOfSpeech is optional in the DTD
            p_frame_no_id=0.0,                 # lexicon-level SyntacticBehaviour@id is optional
            # entries and synsets numbered alike ("1", "2", ... in both tables of a relational
            # dump): the same id string names an entry and a synset of one lexicon
            cross_kind_ids=rng.random() < 0.2,
            p_rerelease=0.0,
            p_ext_forms=rng.choice([0.0, 0.5]),   # extensions adding Forms to base entries
            p_empty_version=rng.choice([0.0, 0.0, 0.3]),
            p_xml_space=rng.choice([0.0, 0.4]),
            p_rare_pos=rng.choice([0.0, 0.0, 0.25]),   # parts of speech t, c, p, x, u
        )
        p.update(forced)
        return p


class Gen:
    def __init__(self, rng: random.Random, profile: Profile):
        self.rng = rng
        self.p = profile

    # -- small helpers ---------------------------------------------------------------
    def pos(self) -> str:
        if self.chance(self.p.get('p_rare_pos', 0.0)):
            return self.rng.choice(RARE_POS)
        return self.rng.choice(POS)

    def kind_letter(self, kind) -> str:
        return 'x' if self.p.get('cross_kind_ids') else kind

    def chance(self, p) -> bool:
        return self.rng.random() < p

    def s(self, plain=None, attr=False) -> str:
        """A string value (attribute-safe: any character; written with char refs)."""
        if self.chance(self.p['special']):
            if attr and self.chance(self.p.get('p_attr_special', 0.3)):
                return self.rng.choice(ATTR_SPECIALS)
            return self.rng.choice(SPECIALS)
        return self.rng.choice(plain or PLAIN)

    def text(self) -> str:
        """Text content: may contain anything; XML whitespace is normalised by the reader."""
        s = self.s()
        if self.chance(self.p['special'] * 0.3):
            # spaces that are content, not XML whitespace
            s = self.rng.choice(['10\xa0km', '全角\u3000スペース', 'ls\u2028ps', 'nel\x85x',
                                 'thin\u2009sp', 'a\u200bb'])
        if self.chance(0.3):
            s = s + ' ' + self.s()
        if self.chance(self.p.get('p_long', 0.0)):
            # long text: spans many parser chunks and database overflow pages
            # (expat hands text to the reader in pieces of at most 8 KiB even when it buffers)
            n = self.rng.choice([300, 700, 2500, 2500, 9000, 9000, 40000])
            words = []
            while sum(len(x) + 1 for x in words) < n:
                words.append(self.s())
            s = ' '.join(words)
        return s

    def meta(self, force=False):
        if not (force or self.chance(self.p['p_meta'])):
            return None
        n = self.rng.choice([1, 1, 2, 3])
        keys = self.rng.sample(META_KEYS, n)
        m = {}
        for k in keys:
            if k == 'confidenceScore':
                m[k] = self.rng.choice(['0.9', '1.0', '0.25', '1', '0.0', '0.8700000047683716',
                                        '0.123456789', '2.5e-07'])
            else:
                m[k] = self.s(attr=True)
                if not m[k].strip():
                    m[k] = 'x'
        return m

    def opt(self) -> bool:
        return self.chance(self.p['p_opt'])

    # -- lexicon documents -------------------------------------------------------------
    def lexicon_header(self, lid, ver, lang, lmf_ge_11):
        d = {
            'id': lid, 'version': ver,
            'label': self.s(['Label ' + lid, 'Wordnet', 'Test lexicon'], attr=True),
            'language': lang,
            'email': self.s(['m@example.com'], attr=True),
            'license': self.s(['https://creativecommons.org/licenses/by/4.0/', 'MIT']),
            'meta': self.meta(),
        }
        if not d['label'].strip():
            d['label'] = 'L'
        if self.opt():
            d['url'] = self.s(['https://example.com/' + lid])
        if self.opt():
            d['citation'] = self.s(['Doe (2020)'], attr=True)
        if lmf_ge_11 and self.opt():
            d['logo'] = self.s(['logo.svg'])
        return d

    def relation(self, target, types):
        r = {'target': target, 'relType': self.rng.choice(types), 'meta': self.meta()}
        if self.chance(0.15):
            r['meta'] = dict(r['meta'] or {})
            r['meta']['type'] = self.rng.choice(['t1', 't2'])
        return r

    def example(self):
        e = {'text': self.text(), 'meta': self.meta()}
        if self.chance(0.3):
            e['language'] = self.rng.choice(LANGS)
        return e

    def count(self):
        return {'value': self.rng.choice([0, 1, 7, 12345]), 'meta': self.meta()}

    def tags(self):
        return [{'text': self.text(), 'category': self.rng.choice(TAG_CATS)}
                for _ in range(self.rng.choice([0, 0, 1, 2]))]

    def prons(self, ge11):
        if not ge11:
            return []
        out = []
        for _ in range(self.rng.choice([0, 0, 1, 2])):
            pr = {'text': self.text()}
            if self.opt():
                pr['variety'] = self.s(['GB', 'US'])
            if self.opt():
                pr['notation'] = self.s(['ipa'])
            if self.chance(0.3):
                pr['phonemic'] = self.rng.choice([True, False])
            if self.opt():
                pr['audio'] = self.s(['a.wav'])
            out.append(pr)
        return out

    def definition(self, sense_ids):
        d = {'text': self.text(), 'meta': self.meta()}
        if self.chance(0.3):
            d['language'] = self.rng.choice(LANGS)
        if sense_ids and self.chance(0.3):
            d['sourceSense'] = self.rng.choice(sense_ids)
        return d

    def pick_ili(self):
        r = self.rng.random()
        if r < self.p['p_ili']:
            return self.rng.choice(ILI_POOL[:self.p['ili_pool']])
        if r < self.p['p_ili'] + 0.15:
            return 'in'
        return ''

    def new_synset(self, sid, ge11):
        ss = {'id': sid, 'ili': self.pick_ili(), 'partOfSpeech': self.pos(),
              'meta': self.meta(), 'definitions': [], 'relations': [], 'examples': []}
        if self.chance(self.p.get('p_no_synset_pos', 0.0)):
            del ss['partOfSpeech']
        if ss['ili'] == 'in' and self.chance(0.8):
            ss['ili_definition'] = {'text': self.text(), 'meta': self.meta()}
        elif ss['ili'] and ss['ili'] != 'in' and self.chance(0.15):
            ss['ili_definition'] = {'text': self.text(), 'meta': self.meta()}
        if self.chance(0.2):
            ss['lexicalized'] = self.rng.choice([True, False])
        if ge11 and self.opt():
            ss['lexfile'] = self.rng.choice(LEXFILES)
        for _ in range(self.rng.choice([0, 1, 1, 2])):
            ss['examples'].append(self.example()) if self.chance(0.4) else None
        return ss

    def new_sense(self, sid, synset_id, pos, ge11):
        s = {'id': sid, 'synset': synset_id, 'meta': self.meta(),
             'relations': [], 'examples': [], 'counts': []}
        if self.chance(0.2):
            s['lexicalized'] = self.rng.choice([True, False])
        if pos in ('a', 's') and self.chance(0.5):
            s['adjposition'] = self.rng.choice(['a', 'p', 'ip'])
        for _ in range(self.rng.choice([0, 0, 1, 2])):
            s['examples'].append(self.example())
        for _ in range(self.rng.choice([0, 0, 1, 2])):
            s['counts'].append(self.count())
        if ge11 and self.chance(0.15):
            # attributes of the format that wn does not interpret must not matter
            s['n'] = self.rng.choice([1, 2, 3, 5, 9])
        return s

    def new_entry(self, eid, ge11, fidprefix):
        pos = self.pos()
        lemma = {'writtenForm': self.rng.choice(VOCAB), 'partOfSpeech': pos,
                 'tags': self.tags(), 'pronunciations': self.prons(ge11)}
        if self.chance(0.2):
            lemma['script'] = self.rng.choice(SCRIPTS)
        e = {'id': eid, 'lemma': lemma, 'forms': [], 'senses': [], 'frames': [],
             'meta': self.meta()}
        used = {(lemma['writtenForm'], lemma.get('script'))}
        for i in range(self.rng.choice([0, 0, 1, 2, 3])):
            f = {'writtenForm': self.rng.choice(VOCAB), 'tags': self.tags(),
                 'pronunciations': self.prons(ge11)}
            if self.chance(0.3):
                f['script'] = self.rng.choice(SCRIPTS)
            if (f['writtenForm'], f.get('script')) in used and (
                    f.get('script') is not None or not self.chance(0.5)):
                # forms sharing written form AND script violate a schema constraint; equal
                # written forms without script are ordinary (put / put / put)
                continue
            used.add((f['writtenForm'], f.get('script')))
            if ge11 and self.chance(0.6):
                f['id'] = '%sf%d' % (fidprefix, i)
            e['forms'].append(f)
        return e

    def base_lexicon(self, lid, ver, lang, ns, ge11):
        """A non-extension lexicon."""
        g = self
        lex = g.lexicon_header(lid, ver, lang, ge11)
        lex['extends'] = None
        lex['requires'] = []
        lex['entries'] = []
        lex['synsets'] = []
        lex['frames'] = []
        nss = g.rng.randint(0, g.p['max_synsets'])
        for i in range(nss):
            lex['synsets'].append(g.new_synset('%s%s%d' % (ns, g.kind_letter('s'), i), ge11))
        nen = g.rng.randint(0, g.p['max_entries'])
        k = 0
        for i in range(nen):
            e = g.new_entry('%s%s%d' % (ns, g.kind_letter('e'), i), ge11, '%se%d-' % (ns, i))
            if lex['synsets']:
                for _ in range(g.rng.choice([0, 1, 1, 2, 3])):
                    ss = g.rng.choice(lex['synsets'])
                    e['senses'].append(
                        g.new_sense('%sk%d' % (ns, k), ss['id'], e['lemma']['partOfSpeech'],
                                    ge11))
                    k += 1
            lex['entries'].append(e)
        self._finish_lexicon(lex, ge11, ns, ext_targets=None)
        return lex

    def _finish_lexicon(self, lex, ge11, ns, ext_targets):
        """Relations, definitions, members, frames: things needing the whole inventory."""
        g = self
        senses = [s for e in lex['entries'] for s in e.get('senses', [])]
        local_senses = [s for s in senses if not s.get('external')]
        sense_ids = [s['id'] for s in senses]
        synsets = lex['synsets']
        synset_ids = [ss['id'] for ss in synsets]
        # definitions (sourceSense restricted to senses of that synset, local or external)
        by_synset = {}
        for s in local_senses:
            by_synset.setdefault(s['synset'], []).append(s['id'])
        for ss in synsets:
            for _ in range(g.rng.choice([0, 1, 1, 2])):
                if g.chance(0.7 if not ss.get('external') else 0.3):
                    ss.setdefault('definitions', []).append(
                        g.definition(by_synset.get(ss['id'], [])))
        # synset relations
        for ss in synsets:
            if not synset_ids or not g.chance(g.p['p_rel']):
                continue
            for _ in range(g.rng.choice([1, 1, 2, 3])):
                tgt = g.rng.choice(synset_ids)
                if tgt == ss['id'] and not g.chance(g.p['p_cycle']):
                    continue
                types = HYPER_RELS if g.chance(g.p['taxonomy']) else SYNSET_RELS
                rel = g.relation(tgt, types)
                ss.setdefault('relations', []).append(rel)
                if g.chance(g.p['p_dup_rel']):
                    ss['relations'].append(dict(rel))       # exact duplicate
                if g.chance(g.p['p_dup_rel']):
                    r2 = dict(rel)
                    r2['meta'] = dict(rel['meta'] or {})
                    # (an empty dc:type is a value too: it differs from an absent one)
                    r2['meta']['type'] = g.rng.choice(['dup-a', 'dup-b', 'dup-a', 'dup-b', ''])
                    ss['relations'].append(r2)              # differs only in dc:type
        if not g.chance(g.p['p_cycle']):
            self._break_hyper_cycles(lex)
        # sense relations
        for s in senses:
            if not g.chance(g.p['p_rel']):
                continue
            for _ in range(g.rng.choice([1, 1, 2])):
                if synset_ids and g.chance(0.3):
                    rel = g.relation(g.rng.choice(synset_ids), SENSE_SYNSET_RELS)
                else:
                    rel = g.relation(g.rng.choice(sense_ids), SENSE_RELS)
                s.setdefault('relations', []).append(rel)
                if g.chance(g.p['p_dup_rel']):
                    s['relations'].append(dict(rel))
        # members
        if ge11:
            for ss in synsets:
                if ss.get('external'):
                    continue
                mem = list(by_synset.get(ss['id'], []))
                if mem and g.chance(g.p['p_members']):
                    g.rng.shuffle(mem)
                    if len(mem) > 1 and g.chance(g.p['p_partial_members']):
                        mem = mem[:-1]
                    ss['members'] = mem
        # frames
        frame_pool = list(FRAMES)
        g.rng.shuffle(frame_pool)
        if ge11 and g.chance(0.6):
            nfr = g.rng.choice([1, 2, 3])
            for i in range(nfr):
                fr = {'id': '%sfr%d' % (ns, i), 'subcategorizationFrame': frame_pool.pop()}
                lex['frames'].append(fr)
            for s in local_senses:
                if g.chance(0.4):
                    ids = [f['id'] for f in lex['frames']]
                    s['subcat'] = g.rng.sample(ids, g.rng.randint(1, len(ids)))
            if local_senses and g.chance(g.p['p_lexframe_senses']):
                fr = g.rng.choice(lex['frames'])
                pool = local_senses
                ext_senses = [s for s in senses if s.get('external')]
                if ext_senses and g.chance(0.5):
                    pool = ext_senses      # an extension gives a frame to a sense of its base
                fr['senses'] = [g.rng.choice(pool)['id']]
            if local_senses and frame_pool and g.chance(g.p.get('p_frame_no_id', 0.0)):
                lex['frames'].append({'subcategorizationFrame': frame_pool.pop(),
                                      'senses': [g.rng.choice(local_senses)['id']]})
        if not ge11 or g.chance(0.3):
            # entry-level frames: the same frame string is normally shared by many entries
            # (distinct within one entry; disjoint from this lexicon's lexicon-level frames)
            entry_pool = list(frame_pool)
            for e in lex['entries']:
                if e.get('external') or not e.get('senses') or not g.chance(0.5):
                    continue
                sids = [s['id'] for s in e['senses'] if not s.get('external')]
                if not sids or not entry_pool:
                    continue
                k = min(len(entry_pool), g.rng.choice([1, 1, 2, 3]))
                for frame in g.rng.sample(entry_pool, k):
                    fr = {'subcategorizationFrame': frame}
                    if g.chance(0.5):
                        fr['senses'] = g.rng.sample(sids, g.rng.randint(1, len(sids)))
                    e.setdefault('frames', []).append(fr)

    def _break_hyper_cycles(self, lex):
        """Drop hypernym edges that close a cycle (unless the profile wants cycles)."""
        edges = {}
        for ss in lex['synsets']:
            keep = []
            for r in ss.get('relations', []):
                if r['relType'] in ('hypernym', 'instance_hypernym'):
                    if self._reaches(edges, r['target'], ss['id']) or r['target'] == ss['id']:
                        continue
                    edges.setdefault(ss['id'], set()).add(r['target'])
                keep.append(r)
            if 'relations' in ss:
                ss['relations'] = keep

    @staticmethod
    def _reaches(edges, a, b):
        seen, todo = set(), [a]
        while todo:
            x = todo.pop()
            if x == b:
                return True
            if x in seen:
                continue
            seen.add(x)
            todo.extend(edges.get(x, ()))
        return False

    def extension(self, lid, ver, lang, ns, base):
        """A lexicon extension of *base* using the documented extension patterns."""
        g = self
        lex = g.lexicon_header(lid, ver, lang, True)
        lex['extends'] = {'id': base['id'], 'version': base['version']}
        if g.chance(0.3):
            lex['extends']['url'] = 'https://example.com/base'
        lex['requires'] = []
        lex['entries'] = []
        lex['synsets'] = []
        lex['frames'] = []
        b_entries = [e for e in base['entries'] if not e.get('external')]
        b_synsets = [ss for ss in base['synsets'] if not ss.get('external')]
        ext_ss = {}     # id -> ExternalSynset element

        def ext_synset(sid):
            if sid not in ext_ss:
                ext_ss[sid] = {'id': sid, 'external': True, 'definitions': [],
                               'relations': [], 'examples': []}
            return ext_ss[sid]

        # new synsets
        for i in range(g.rng.randint(0, max(1, g.p['max_synsets'] // 2))):
            lex['synsets'].append(g.new_synset('%s%s%d' % (ns, g.kind_letter('s'), i), True))
        new_ss_ids = [ss['id'] for ss in lex['synsets']]
        k = 0

        def pick_target_synset():
            cands = list(new_ss_ids)
            if b_synsets and (not cands or g.chance(0.5)):
                sid = g.rng.choice(b_synsets)['id']
                ext_synset(sid)
                return sid
            return g.rng.choice(cands) if cands else None

        # external entries
        picked = g.rng.sample(b_entries, min(len(b_entries), g.rng.choice([0, 1, 2, 3])))
        for be in picked:
            xe = {'id': be['id'], 'external': True, 'forms': [], 'senses': []}
            if g.chance(0.5):
                xe['lemma'] = {'external': True, 'tags': g.tags(),
                               'pronunciations': g.prons(True)}
            for bf in be.get('forms', []):
                if bf.get('id') and g.chance(0.5):
                    xe['forms'].append({'id': bf['id'], 'external': True, 'tags': g.tags(),
                                        'pronunciations': g.prons(True)})
            if g.chance(g.p.get('p_ext_forms', 0.0)):
                # the extension gives a word of its base further forms of its own
                used = {(be['lemma']['writtenForm'], be['lemma'].get('script'))} | \
                    {(bf['writtenForm'], bf.get('script')) for bf in be.get('forms', [])}
                for j in range(g.rng.choice([1, 1, 2])):
                    nf = {'writtenForm': g.rng.choice(VOCAB), 'tags': g.tags(),
                          'pronunciations': g.prons(True)}
                    if (nf['writtenForm'], None) in used:
                        continue
                    used.add((nf['writtenForm'], None))
                    if g.chance(0.5):
                        nf['id'] = '%sxf%d-%d' % (ns, len(lex['entries']), j)
                    xe['forms'].insert(g.rng.randint(0, len(xe['forms'])), nf)
            if g.chance(g.p.get('p_ext_entry_frames', 0.0)):
                # (the library reads but does not use frames given inside an external entry)
                xe['frames'] = [{'subcategorizationFrame': g.rng.choice(FRAMES), 'senses': None}]
            for bs in be.get('senses', []):
                if bs.get('external'):
                    continue
                if g.chance(0.5):
                    xs = {'id': bs['id'], 'external': True, 'relations': [],
                          'examples': [], 'counts': []}
                    for _ in range(g.rng.choice([0, 1])):
                        xs['examples'].append(g.example())
                    for _ in range(g.rng.choice([0, 1])):
                        xs['counts'].append(g.count())
                    xe['senses'].append(xs)
            for _ in range(g.rng.choice([0, 1, 1, 2])):
                tgt = pick_target_synset()
                if tgt is None:
                    break
                xe['senses'].append(g.new_sense('%sk%d' % (ns, k), tgt,
                                                be['lemma']['partOfSpeech'], True))
                k += 1
            lex['entries'].append(xe)
        # new entries
        for i in range(g.rng.randint(0, max(1, g.p['max_entries'] // 2))):
            e = g.new_entry('%s%s%d' % (ns, g.kind_letter('e'), i), True, '%se%d-' % (ns, i))
            for _ in range(g.rng.choice([0, 1, 1, 2])):
                tgt = pick_target_synset()
                if tgt is None:
                    break
                e['senses'].append(g.new_sense('%sk%d' % (ns, k), tgt,
                                               e['lemma']['partOfSpeech'], True))
                k += 1
            lex['entries'].append(e)
        # extra external synsets that get relations/definitions/examples
        for bss in g.rng.sample(b_synsets, min(len(b_synsets), g.rng.choice([0, 1, 2]))):
            x = ext_synset(bss['id'])
            if g.chance(0.5):
                x['examples'].append(g.example())
        lex['synsets'].extend(ext_ss.values())
        self._finish_lexicon(lex, True, ns, ext_targets=None)
        # drop empty optional lists on externals for tidiness of the XML
        return lex


# -- universe -----------------------------------------------------------------------------

def _nsname(lid, ver):
    v = ''.join(c if c.isalnum() else '_' for c in ver)
    return '%s%s-' % (lid.replace('-', '_'), v)


def generate(rng: random.Random, profile: Profile | None = None) -> dict:
    """Return a universe: {'profile', 'lexicons': {spec: doc}, 'order': [spec],
    'resources': [{'name','lmf_version','lexicons':[spec]}], 'ili_files': [...]}"""
    p = profile or Profile.draw(rng)
    g = Gen(rng, p)
    lexicons: dict = {}
    order: list = []
    res_version: dict = {}       # spec -> lmf version of the file carrying it
    ids = list(LEX_IDS)
    rng.shuffle(ids)
    bases = []
    ns_of = {}
    for i in range(p['n_bases']):
        lid = ids.pop()
        vers = rng.sample(VERSIONS, 3)
        if g.chance(p.get('p_empty_version', 0.0)):
            vers[rng.randrange(3)] = ''       # an unversioned release: version=""
        lang = rng.choice(LANGS)
        nver = 2 if g.chance(p['p_second_version']) else 1
        if nver == 2 and g.chance(0.3):
            nver = 3
        if nver >= 2 and g.chance(p.get('p_space_version', 0.0)):
            # a release and its beta: a version with a space cannot be written as a
            # specifier, but objects obtained otherwise must still work
            vers[1] = vers[0] + ' beta'
        for ver in vers[:nver]:
            lmfv = rng.choice(p['lmf_versions'])
            ge11 = lmfv != '1.0'
            ns = _nsname(lid, ver)
            if bases and g.chance(p['collide']):
                ns = ns_of[rng.choice(bases)]      # share identifiers with another lexicon
            doc = g.base_lexicon(lid, ver, lang if g.chance(0.8) else rng.choice(LANGS),
                                 ns, ge11)
            sp = spec_of(doc)
            lexicons[sp] = doc
            order.append(sp)
            bases.append(sp)
            ns_of[sp] = ns
            res_version[sp] = lmfv
    # extensions
    exts = []
    for i in range(p['n_ext']):
        cands = list(bases)
        if exts and g.chance(p['p_ext_of_ext']):
            cands = list(exts)
        base_sp = rng.choice(cands)
        lid = (ids.pop() if ids else 'x%d' % i)
        ver = rng.choice(VERSIONS)
        ns = _nsname(lid, ver)
        doc = g.extension(lid, ver, rng.choice(LANGS), ns, lexicons[base_sp])
        sp = spec_of(doc)
        if sp in lexicons:
            continue
        lexicons[sp] = doc
        order.append(sp)
        exts.append(sp)
        ns_of[sp] = ns
        res_version[sp] = rng.choice([v for v in ['1.1', '1.2', '1.3']])
    # requires
    specs = list(lexicons)
    for sp in specs:
        doc = lexicons[sp]
        if res_version[sp] == '1.0' or not g.chance(p['p_requires']):
            continue
        for _ in range(rng.choice([1, 1, 2])):
            if g.chance(0.75):
                other = rng.choice(specs)
                if other == sp:
                    continue
                dep = {'id': lexicons[other]['id'], 'version': lexicons[other]['version']}
            else:
                dep = {'id': 'ghost', 'version': rng.choice(VERSIONS)}
            if any(d['id'] == dep['id'] and d['version'] == dep['version']
                   for d in doc['requires']):
                continue
            if g.chance(0.3):
                dep['url'] = 'https://example.com/dep'
            doc['requires'].append(dep)
    # resources: group lexicons into files; lexicons sharing a namespace never share a file
    resources = []
    pending = list(order)
    n = 0
    while pending:
        sp = pending.pop(0)
        group = [sp]
        v = res_version[sp]
        while pending and g.chance(p['multi_file']) and len(group) < 3:
            cand = pending[0]
            if any(ns_of[cand] == ns_of[x] for x in group):
                break
            # all lexicons of one file share the file's LMF version
            need11 = lexicons[cand]['extends'] is not None or _needs_11(lexicons[cand])
            if v == '1.0' and need11:
                break
            if v != '1.0' and res_version[cand] == '1.0':
                pass   # a 1.0-style lexicon is fine inside a >=1.1 file
            group.append(pending.pop(0))
        resources.append({'name': 'r%d' % n, 'lmf_version': v, 'lexicons': group})
        n += 1
    # ILI files
    ili_files = []
    for i in range(p['n_ili_files']):
        rows = []
        pool = ILI_POOL[:p['ili_pool']] + ['i90', 'i91']
        for ili in rng.sample(pool, rng.randint(1, len(pool))):
            row = {'ili': ili}
            if g.chance(0.8):
                row['status'] = rng.choice(ILI_STATUSES)
            if g.chance(0.8):
                row['definition'] = rng.choice(
                    ['def of %s (%d)' % (ili, i), 'x', '', '"quoted" start of %s' % ili,
                     'a "b" c; d', "it's <b> & co", 'trailing quote"', 'été 猫  two  spaces',
                     ' lead space', '\\N', 'NULL', 'ls\u2028ps\u2029 inside', 'nel\x85 c1\x96',
                     'vt\x0bff\x0cfs\x1c', 'nb\xa0sp', '007', '1.50', '+1', ' 12 ', '.5', '1e2',
                     '0x10', '-0'])
            rows.append(row)
        if g.chance(0.25):
            # an id listed on more than one line (a released table with superseding lines
            # appended): which line wins is not stated anywhere, but reloading the file and
            # the load order relative to the lexicons must still not matter
            for _ in range(rng.randint(1, 2)):
                src = rng.choice(rows)
                row = {'ili': src['ili'], 'status': rng.choice(ILI_STATUSES),
                       'definition': 'superseding line for %s' % src['ili']}
                rows.insert(rng.randint(0, len(rows)), row)
        if len(rows) >= 2 and g.chance(0.15):
            # an empty line in the middle (two tables pasted together): it lists nothing
            rows.insert(rng.randint(1, len(rows) - 1), {'blank': True})
        cols = ['ili']
        if any('status' in r for r in rows):
            cols.append('status')
        if any('definition' in r for r in rows):
            cols.append('definition')
        if len(cols) == 1:
            # a header consisting of the single column "ili" is not recognised by wn
            # (is_ili compares the first tab-separated field including the newline);
            # no property speaks about such files, so they are not generated
            cols.append('status')
        if g.chance(0.3):
            cols = [cols[0]] + list(reversed(cols[1:]))
        ili_files.append({'name': 'ili%d' % i, 'upper': g.chance(0.3), 'columns': cols,
                          'rows': rows, 'crlf': g.chance(0.2), 'extra_column': g.chance(0.2),
                          'interior_columns': g.chance(0.25), 'mixed_eol': g.chance(0.2)})
    # WN-LMF 1.3: xml:space on nodes with text content
    if p.get('p_xml_space'):
        def spacey(elem):
            if not g.chance(p['p_xml_space']):
                return
            elem['space'] = rng.choice(['preserve', 'preserve', 'default'])
            elem['text'] = rng.choice(['  %s  ', '%s\n    second line', '\n      %s\n    ',
                                       '%s  two  spaces\tand a tab ']) % elem['text']
        for r in resources:
            if r['lmf_version'] != '1.3':
                continue
            for sp in r['lexicons']:
                doc = lexicons[sp]
                for ss in doc.get('synsets', []):
                    for d in ss.get('definitions', []):
                        spacey(d)
                    if ss.get('ili_definition'):
                        spacey(ss['ili_definition'])
                    for ex in ss.get('examples', []):
                        spacey(ex)
                for e in doc.get('entries', []):
                    for sn in e.get('senses', []):
                        for ex in sn.get('examples', []):
                            spacey(ex)
    # re-releases: other content under an unchanged id:version (installed only after the first
    # release has been removed), e.g. a wordnet under development or a silently fixed release
    alt = {}
    if p.get('p_rerelease'):
        g2 = Gen(random.Random(rng.random()), p)
        for r in resources:
            for sp in r['lexicons']:
                if g2.chance(p['p_rerelease']):
                    alt[sp] = rerelease_of(g2, lexicons[sp], r['lmf_version'] != '1.0',
                                           'zr%d-' % order.index(sp))
    return {'profile': dict(p), 'lexicons': lexicons, 'order': order,
            'resources': resources, 'ili_files': ili_files, 'alt': alt}


def rerelease_of(g, doc, ge11, ns):
    import copy
    alt = copy.deepcopy(doc)
    alt['label'] = 'revised ' + doc['label']
    for k in range(g.rng.choice([1, 1, 2])):
        ss = g.new_synset('%ss%d' % (ns, k), ge11)
        ss['ili'] = ''
        ss.pop('ili_definition', None)
        e = g.new_entry('%se%d' % (ns, k), ge11, '%se%d-' % (ns, k))
        e['senses'].append(g.new_sense('%sk%d' % (ns, k), ss['id'], e['lemma']['partOfSpeech'],
                                       ge11))
        alt['synsets'].append(ss)
        alt['entries'].append(e)
    for ss in alt['synsets']:
        if not ss.get('external') and ss.get('definitions'):
            ss['definitions'][0]['text'] = 'revised ' + ss['definitions'][0]['text']
            break
    for e in alt['entries']:
        if not e.get('external') and e.get('forms') and not e['forms'][-1].get('id') \
                and g.chance(0.5):
            e['forms'].pop()        # (a form without id: no extension can refer to it)
            break
    return alt


def _needs_11(doc) -> bool:
    if doc.get('logo') or doc.get('requires') or doc.get('frames') or doc.get('extends'):
        return True
    for e in doc.get('entries', []):
        for f in [e.get('lemma') or {}] + e.get('forms', []):
            if f.get('pronunciations') or f.get('id'):
                return True
        for s in e.get('senses', []):
            if s.get('subcat'):
                return True
    for ss in doc.get('synsets', []):
        if ss.get('members') or ss.get('lexfile'):
            return True
    return False


def generate_big(rng: random.Random, n=None) -> dict:
    """A universe whose sizes cross the thresholds small universes never reach (default
    BATCH_SIZE=1000, SQLite's 999 host parameters, power-of-two chunk sizes): two lexicons of
    *n* synsets/entries sharing their ILIs one to one, a hub synset related to every other
    one in the provider, a dependent that borrows all its relations, and an ILI index of
    more than a thousand rows with the lexicons' ILIs placed around chunk boundaries."""
    n = n or rng.choice([1030, 1100, 2050])
    def lexicon(lid, lang, rels, requires):
        lex = {'id': lid, 'version': '1', 'label': 'Big ' + lid, 'language': lang,
               'email': 'm@example.com', 'license': 'MIT', 'meta': None, 'extends': None,
               'requires': requires, 'entries': [], 'synsets': [], 'frames': []}
        for k in range(n):
            ss = {'id': '%s-s%d' % (lid, k), 'ili': 'i%d' % (100 + k), 'partOfSpeech': 'n',
                  'meta': None, 'definitions': [], 'relations': [], 'examples': []}
            if k % 7 == 0:
                ss['definitions'].append({'text': 'definition %d of %s' % (k, lid),
                                          'meta': None})
            if rels:
                if k > 0:
                    ss['relations'].append({'target': '%s-s%d' % (lid, (k - 1) // 2),
                                            'relType': 'hypernym', 'meta': None})
                if k == 0:
                    for j in range(1, n):
                        ss['relations'].append({'target': '%s-s%d' % (lid, j),
                                                'relType': 'also', 'meta': None})
            elif k % 3 == 0 and k > 0:
                ss['relations'].append({'target': '%s-s%d' % (lid, k - 1),
                                        'relType': 'similar', 'meta': None})
            lex['synsets'].append(ss)
            e = {'id': '%s-e%d' % (lid, k),
                 'lemma': {'writtenForm': 'w%d' % (k % 300), 'partOfSpeech': 'n', 'tags': [],
                           'pronunciations': []},
                 'forms': [], 'frames': [], 'meta': None,
                 'senses': [{'id': '%s-k%d' % (lid, k), 'synset': ss['id'], 'meta': None,
                             'relations': [], 'examples': [], 'counts': []}]}
            if k % 11 == 0:
                e['senses'][0]['examples'].append({'text': 'example %d' % k, 'meta': None})
            lex['entries'].append(e)
        return lex
    prov = lexicon('bige', 'en', True, [])
    dep = lexicon('bigl', 'es', False, [{'id': 'bige', 'version': '1'}])
    lexicons = {'bige:1': prov, 'bigl:1': dep}
    rows = []
    m = n + 300
    order = list(range(m))
    rng.shuffle(order)
    # ILIs the lexicons use go to the positions around likely chunk boundaries
    hot = sorted({p for b in (500, 512, 999, 1000, 1024, 2000, 2048)
                  for p in (b - 2, b - 1, b, b + 1) if p < m})
    used = rng.sample(range(n), min(len(hot), n))
    pos = dict(zip(hot, used))
    taken = set(used)
    rest = [k for k in order if k not in taken]
    for p in range(m):
        k = pos.get(p)
        if k is None:
            k = rest.pop()
        rows.append({'ili': 'i%d' % (100 + k), 'status': rng.choice(ILI_STATUSES),
                     'definition': 'index gloss %d' % k})
    ili_files = [{'name': 'ili0', 'upper': False, 'columns': ['ili', 'status', 'definition'],
                  'rows': rows, 'crlf': False, 'extra_column': False}]
    return {'profile': {'big': n}, 'lexicons': lexicons, 'order': ['bige:1', 'bigl:1'],
            'resources': [{'name': 'r0', 'lmf_version': '1.1', 'lexicons': ['bige:1']},
                          {'name': 'r1', 'lmf_version': '1.3', 'lexicons': ['bigl:1']}],
            'ili_files': ili_files}


def generate_many_lex(rng: random.Random, n=None) -> dict:
    """MANY installed lexicons (a database that keeps every release of a multilingual
    collection): *n* tiny independent lexicons, n just above 256 / 500, a few versions and
    languages, shipped 64 per file."""
    n = n or rng.choice([257, 300, 513])
    vers = ['1.0', '1.1+x', '2']
    langs = ['en', 'es', 'ja']
    lexicons, order, resources, group = {}, [], [], []
    for i in range(n):
        lid, ver = 'm%03d' % (i // 2), vers[i % 2] if i % 7 else vers[2]
        sp = '%s:%s' % (lid, ver)
        if sp in lexicons:
            continue
        lexicons[sp] = {
            'id': lid, 'version': ver, 'label': 'Many %d' % i, 'language': langs[i % 3],
            'email': 'm@example.com', 'license': 'MIT', 'meta': None, 'extends': None,
            'requires': [], 'frames': [],
            'synsets': [{'id': '%s-s0' % lid, 'ili': '', 'partOfSpeech': 'n', 'meta': None,
                         'definitions': [], 'relations': [], 'examples': []}],
            'entries': [{'id': '%s-e0' % lid,
                         'lemma': {'writtenForm': 'w%d' % i, 'partOfSpeech': 'n', 'tags': [],
                                   'pronunciations': []},
                         'forms': [], 'frames': [], 'meta': None,
                         'senses': [{'id': '%s-k0' % lid, 'synset': '%s-s0' % lid,
                                     'meta': None, 'relations': [], 'examples': [],
                                     'counts': []}]}]}
        order.append(sp)
        group.append(sp)
        if len(group) == 64:
            resources.append({'name': 'r%d' % len(resources), 'lmf_version': '1.1',
                              'lexicons': group})
            group = []
    if group:
        resources.append({'name': 'r%d' % len(resources), 'lmf_version': '1.1',
                          'lexicons': group})
    return {'profile': {'many_lex': len(order)}, 'lexicons': lexicons, 'order': order,
            'resources': resources, 'ili_files': []}


def generate_hub(rng: random.Random, k=None) -> dict:
    """Sizes BETWEEN the small random universes and the thousand-row ones: a provider whose
    hub synset has *k* children (k around 64/100/128/256), a dependent that has the hub concept
    and only a few of the children, and one or two extensions of the dependent that LATER
    supply synsets for some of the concepts the dependent lacks (a placeholder of an earlier
    query has to become a real synset for a long-lived default-mode Wordnet)."""
    k = k or rng.choice([40, 63, 64, 65, 70, 100, 127, 128, 129, 200, 255, 256, 257, 300])

    def header(lid, lang, requires, extends=None):
        return {'id': lid, 'version': '1', 'label': 'Hub ' + lid, 'language': lang,
                'email': 'm@example.com', 'license': 'MIT', 'meta': None, 'extends': extends,
                'requires': requires, 'entries': [], 'synsets': [], 'frames': []}

    def synset(sid, j, rels=()):
        return {'id': sid, 'ili': 'i%d' % (500 + j), 'partOfSpeech': 'n', 'meta': None,
                'definitions': [], 'relations': list(rels), 'examples': []}

    def entry(lid, j, sid):
        return {'id': '%s-e%d' % (lid, j),
                'lemma': {'writtenForm': 'h%d' % j, 'partOfSpeech': 'n', 'tags': [],
                          'pronunciations': []},
                'forms': [], 'frames': [], 'meta': None,
                'senses': [{'id': '%s-k%d' % (lid, j), 'synset': sid, 'meta': None,
                            'relations': [], 'examples': [], 'counts': []}]}
    prov = header('hube', 'en', [])
    reltype = rng.choice(['hyponym', 'also', 'similar'])
    prov['synsets'].append(synset('hube-s0', 0, [{'target': 'hube-s%d' % j, 'relType': reltype,
                                                   'meta': None} for j in range(1, k + 1)]))
    for j in range(1, k + 1):
        prov['synsets'].append(synset('hube-s%d' % j, j, [{'target': 'hube-s0',
                                                            'relType': 'hypernym', 'meta': None}]))
    for j in range(0, k + 1, 9):
        prov['entries'].append(entry('hube', j, 'hube-s%d' % j))
    dep = header('hubl', 'es', [{'id': 'hube', 'version': '1'}] if rng.random() < 0.7 else [])
    have = sorted(rng.sample(range(1, k + 1), rng.choice([0, 1, 3])))
    own = [{'target': 'hubl-s%d' % j, 'relType': 'also', 'meta': None} for j in have[:1]]
    dep['synsets'].append(synset('hubl-s0', 0, own))
    dep['entries'].append(entry('hubl', 0, 'hubl-s0'))
    for j in have:
        dep['synsets'].append(synset('hubl-s%d' % j, j))
        dep['entries'].append(entry('hubl', j, 'hubl-s%d' % j))
    lexicons = {'hube:1': prov, 'hubl:1': dep}
    order = ['hube:1', 'hubl:1']
    resources = [{'name': 'r0', 'lmf_version': '1.1', 'lexicons': ['hube:1']},
                 {'name': 'r1', 'lmf_version': '1.3', 'lexicons': ['hubl:1']}]
    lack = [j for j in range(1, k + 1) if j not in have]
    rng.shuffle(lack)
    for i in range(rng.choice([1, 2])):
        xid = 'hubx%d' % i
        x = header(xid, 'es', [], {'id': 'hubl', 'version': '1'})
        mine = [lack.pop() for _ in range(min(len(lack), rng.choice([1, 2, 5])))]
        for j in mine:
            x['synsets'].append(synset('%s-s%d' % (xid, j), j))
            x['entries'].append(entry(xid, j, '%s-s%d' % (xid, j)))
        if rng.random() < 0.5 and have:
            # a second synset for a concept the base already has (several synsets per ILI)
            j = have[0]
            x['synsets'].append(synset('%s-s%d' % (xid, j), j))
        sp = '%s:1' % xid
        lexicons[sp] = x
        order.append(sp)
        resources.append({'name': 'r%d' % len(resources), 'lmf_version': '1.1',
                          'lexicons': [sp]})
    return {'profile': {'hub': k}, 'lexicons': lexicons, 'order': order,
            'resources': resources, 'ili_files': []}


def generate_deep(rng: random.Random, n=None) -> dict:
    """A universe whose relation graph is DEEP rather than wide: one lexicon whose *n* synsets
    form a single chain of one relation type (and whose senses form a chain of another), longer
    than the interpreter's default recursion limit."""
    n = n or rng.choice([1100, 1500])
    srel = rng.choice(['hypernym', 'similar', 'also'])
    krel = rng.choice(['derivation', 'similar'])
    lex = {'id': 'deep', 'version': '1', 'label': 'Deep', 'language': 'en',
           'email': 'm@example.com', 'license': 'MIT', 'meta': None, 'extends': None,
           'requires': [], 'entries': [], 'synsets': [], 'frames': []}
    for k in range(n):
        ss = {'id': 'deep-s%d' % k, 'ili': '', 'partOfSpeech': 'n', 'meta': None,
              'definitions': [], 'relations': [], 'examples': []}
        if k + 1 < n:
            ss['relations'].append({'target': 'deep-s%d' % (k + 1), 'relType': srel,
                                    'meta': None})
        lex['synsets'].append(ss)
        sense = {'id': 'deep-k%d' % k, 'synset': ss['id'], 'meta': None, 'relations': [],
                 'examples': [], 'counts': []}
        if k + 1 < n:
            sense['relations'].append({'target': 'deep-k%d' % (k + 1), 'relType': krel,
                                       'meta': None})
        lex['entries'].append({'id': 'deep-e%d' % k,
                               'lemma': {'writtenForm': 'w%d' % k, 'partOfSpeech': 'n',
                                         'tags': [], 'pronunciations': []},
                               'forms': [], 'frames': [], 'meta': None, 'senses': [sense]})
    return {'profile': {'deep': n, 'synset_relation': srel, 'sense_relation': krel},
            'lexicons': {'deep:1': lex}, 'order': ['deep:1'],
            'resources': [{'name': 'r0', 'lmf_version': '1.0', 'lexicons': ['deep:1']}],
            'ili_files': []}


def generate_huge_ili(rng: random.Random, m=40000) -> dict:
    """A universe whose ILI index has more rows than SQLite has host parameters (the released
    CILI has about 117000) while a small lexicon uses ILIs listed all over the file: at its
    start, around every multiple of 32766/1000, and at its end."""
    hot = sorted({p for b in (0, 999, 1000, 16383, 32765, 32766, 32767, m - 1)
                  for p in (b - 1, b, b + 1) if 0 <= p < m})
    lex = {'id': 'hl', 'version': '1', 'label': 'Huge index user', 'language': 'en',
           'email': 'm@example.com', 'license': 'MIT', 'meta': None, 'extends': None,
           'requires': [], 'entries': [], 'synsets': [], 'frames': []}
    for k, p in enumerate(hot):
        lex['synsets'].append({'id': 'hl-s%d' % k, 'ili': 'i%d' % (100000 + p),
                               'partOfSpeech': 'n', 'meta': None, 'definitions': [],
                               'relations': [], 'examples': []})
    rows = [{'ili': 'i%d' % (100000 + p), 'status': ILI_STATUSES[p % len(ILI_STATUSES)],
             'definition': 'gloss %d' % p} for p in range(m)]
    return {'profile': {'huge_ili': m}, 'lexicons': {'hl:1': lex}, 'order': ['hl:1'],
            'resources': [{'name': 'r0', 'lmf_version': '1.0', 'lexicons': ['hl:1']}],
            'ili_files': [{'name': 'ili0', 'upper': False,
                           'columns': ['ili', 'status', 'definition'], 'rows': rows,
                           'crlf': False, 'extra_column': False}]}


def generate_many_ext(rng: random.Random, n=None) -> dict:
    """A base lexicon with MANY extensions (an extension project whose releases are installed
    side by side): each gives the same base word a sense of its own on the same base synset."""
    n = n or rng.choice([105, 130])

    def header(lid, ver, label):
        return {'id': lid, 'version': ver, 'label': label, 'language': 'en',
                'email': 'm@example.com', 'license': 'MIT', 'meta': None, 'requires': [],
                'entries': [], 'synsets': [], 'frames': []}
    base = header('mb', '1', 'Many base')
    base['extends'] = None
    base['synsets'].append({'id': 'mb-s0', 'ili': 'i1', 'partOfSpeech': 'n', 'meta': None,
                            'definitions': [], 'relations': [], 'examples': []})
    base['entries'].append({'id': 'mb-e0',
                            'lemma': {'writtenForm': 'tree', 'partOfSpeech': 'n', 'tags': [],
                                      'pronunciations': []},
                            'forms': [], 'frames': [], 'meta': None,
                            'senses': [{'id': 'mb-k0', 'synset': 'mb-s0', 'meta': None,
                                        'relations': [], 'examples': [], 'counts': []}]})
    lexicons = {'mb:1': base}
    order = ['mb:1']
    group = []
    resources = [{'name': 'r0', 'lmf_version': '1.1', 'lexicons': ['mb:1']}]
    for i in range(1, n + 1):
        x = header('mx', str(i), 'Many ext %d' % i)
        x['extends'] = {'id': 'mb', 'version': '1'}
        x['entries'].append({'id': 'mb-e0', 'external': True, 'forms': [],
                             'senses': [{'id': 'mx%d-k0' % i, 'synset': 'mb-s0', 'meta': None,
                                         'relations': [], 'examples': [], 'counts': []}]})
        x['synsets'].append({'id': 'mb-s0', 'external': True, 'definitions': [],
                             'relations': [], 'examples': []})
        sp = 'mx:%d' % i
        lexicons[sp] = x
        order.append(sp)
        group.append(sp)
        if len(group) == 40 or i == n:
            resources.append({'name': 'r%d' % len(resources), 'lmf_version': '1.1',
                              'lexicons': group})
            group = []
    return {'profile': {'many_ext': n}, 'lexicons': lexicons, 'order': order,
            'resources': resources, 'ili_files': []}


def generate_fat(rng: random.Random, k=None) -> dict:
    """A universe in which single PARENTS have many children - more than 127/128/255/256 of
    them: a synset with *k* member senses declared in shuffled order, an entry with *k* forms,
    a sense with *k* examples and counts, a synset with *k* definitions, examples and
    relations (sizes between the small random worlds and the huge flat ones)."""
    k = k or rng.choice([130, 260])
    lex = {'id': 'fat', 'version': '1', 'label': 'Fat', 'language': 'en',
           'email': 'm@example.com', 'license': 'MIT', 'meta': None, 'extends': None,
           'requires': [], 'entries': [], 'synsets': [], 'frames': []}

    def synset(sid, **kw):
        d = {'id': sid, 'ili': '', 'partOfSpeech': 'n', 'meta': None, 'definitions': [],
             'relations': [], 'examples': []}
        d.update(kw)
        return d

    def entry(eid, form, senses, forms=()):
        return {'id': eid, 'lemma': {'writtenForm': form, 'partOfSpeech': 'n', 'tags': [],
                                     'pronunciations': []},
                'forms': list(forms), 'frames': [], 'meta': None, 'senses': senses}

    def sense(sid, ss, **kw):
        d = {'id': sid, 'synset': ss, 'meta': None, 'relations': [], 'examples': [],
             'counts': []}
        d.update(kw)
        return d
    # many members
    members = ['fat-m%d' % i for i in range(k)]
    order = list(members)
    rng.shuffle(order)
    lex['synsets'].append(synset('fat-many-members', members=order))
    for i in range(k):
        lex['entries'].append(entry('fat-me%d' % i, 'member%d' % i,
                                    [sense('fat-m%d' % i, 'fat-many-members')]))
    # many forms / examples / counts
    lex['synsets'].append(synset('fat-plain'))
    lex['entries'].append(entry(
        'fat-forms', 'manyforms',
        [sense('fat-fk', 'fat-plain',
               examples=[{'text': 'example %d' % i, 'meta': None} for i in range(k)],
               counts=[{'value': (i * 7919) % 1000, 'meta': None} for i in range(k)])],
        forms=[{'writtenForm': 'form%d' % i, 'id': 'fat-f%d' % i,
                'tags': [{'text': 't%d' % i, 'category': 'c'}], 'pronunciations': []}
               for i in range(k)]))
    # many definitions / examples / relations of one synset
    targets = ['fat-t%d' % i for i in range(k)]
    for t in targets:
        lex['synsets'].append(synset(t))
    lex['synsets'].append(synset(
        'fat-hub',
        definitions=[{'text': 'definition %d' % i, 'meta': None} for i in range(k)],
        examples=[{'text': 'synset example %d' % i, 'meta': None} for i in range(k)],
        relations=[{'target': t, 'relType': 'hyponym' if i % 2 else 'also', 'meta': None}
                   for i, t in enumerate(targets)]))
    return {'profile': {'fat': k}, 'lexicons': {'fat:1': lex}, 'order': ['fat:1'],
            'resources': [{'name': 'r0', 'lmf_version': '1.1', 'lexicons': ['fat:1']}],
            'ili_files': []}
