"""Executes a plan step by step against the real library and the reference model and
evaluates the enabled oracles after every step."""
from __future__ import annotations

import json
import os
import re
import traceback
import warnings

from . import compare, observe, xmlout
from .model import Model, spec_of, F_RESIDUE, F_SCOPE
from .world import World, SimHandler, SimFault, SimInterrupt, SimExit, SimCancel, SimBudget
from . import world as _world

import wn
import wn.lmf

DEFAULT_BUDGET = 20000


class Violation(Exception):
    def __init__(self, prop, oracle, message, detail=None, tags=()):
        super().__init__(message)
        self.prop = prop
        self.oracle = oracle
        self.message = message
        self.detail = detail
        self.tags = sorted(tags)

    def signature(self):
        return '%s|%s|%s' % (self.oracle, self.message, ','.join(self.tags))

    def to_json(self):
        return {'property': self.prop, 'oracle': self.oracle, 'message': self.message,
                'tags': self.tags, 'signature': self.signature(),
                'detail': json.loads(json.dumps(self.detail, default=str, ensure_ascii=False))}


def generalize(path: str) -> str:
    """Drop concrete identifiers from a diff path: /words/a:1|e0/forms[2]/tags ->
    /words/*/forms[*]/tags"""
    parts = path.split('/')
    out = []
    for i, p in enumerate(parts):
        if i >= 2 and i % 2 == 0 and parts[1] in ('words', 'senses', 'synsets', 'lexicons') \
                and i == 2:
            out.append('*')
        elif i >= 4 and parts[i - 1] == 'requires':
            out.append('*')
        else:
            out.append(re.sub(r'\[\d+\]', '[*]', p))
    return '/'.join(out)


def type_scores(x):
    n = 0
    if isinstance(x, dict):
        m = x.get('meta')
        if isinstance(m, dict) and isinstance(m.get('confidenceScore'), str):
            v = m['confidenceScore']
            try:
                if repr(float(v)) == v:
                    m['confidenceScore'] = float(v)
                    n += 1
            except ValueError:
                pass
        for v in x.values():
            n += type_scores(v)
    elif isinstance(x, (list, tuple)):
        for v in x:
            n += type_scores(v)
    return n


def parse_describe(text):
    """Counts printed by Lexicon.describe()."""
    out = {}
    for line in text.split('\n'):
        mt = re.match(r'\s*(Words|Senses|Synsets|ILIs)\s*:\s*(\d+)(?:\s*\((.*)\))?\s*$', line)
        if not mt:
            continue
        name, total, sub = mt.group(1).lower(), int(mt.group(2)), mt.group(3)
        if name in ('words', 'synsets'):
            d = {}
            for part in (sub or '').split(','):
                if part.strip():
                    pos, n = part.rsplit(':', 1)
                    d[pos.strip()] = int(n)
            out[name] = d
            if sum(d.values()) != total:
                out[name + '_total'] = total
        else:
            out[name] = total
    return out


class Sim:
    """One simulated run."""

    def __init__(self, universe, seed, prop, oracles=(), budget=DEFAULT_BUDGET):
        self.seed = seed
        self.prop = prop
        self.oracles = set(oracles)
        self.W = World(seed)
        self.m = Model(universe)
        # (the lexicon documents are the model's: a re-release swaps one of them)
        self.u = dict(universe, lexicons=self.m.docs)
        self.models = {'primary': self.m}       # one model per data directory (node)
        self.budget = budget
        self.step = -1
        self.stats = {'ops': 0, 'faults': {}, 'states': set(), 'probes': {}, 'cells': set()}
        self.res = {r['name']: r for r in universe['resources']}
        self.ilif = {f['name']: f for f in universe['ili_files']}
        self.sessions = {}
        self.files = {}

    def close(self):
        self.W.close()

    def probe(self, name, n=1):
        self.stats['probes'][name] = self.stats['probes'].get(name, 0) + n

    # -- helpers -----------------------------------------------------------------------------
    def materialise(self, res, route='xml', quote='"', tag='', style=None, siblings=None):
        data = xmlout.resource_xml(self.u, res, quote=quote, style=style)
        d = self.W.workdir('in-%s-%d%s' % (res['name'], self.step, tag))
        sib = [(n, xmlout.resource_xml(self.u, self.res[n])) for n in (siblings or [])]
        return xmlout.package(route if route != 'mem' else 'xml', d, res['name'], data,
                              siblings=sib or None), data

    def materialise_ili(self, f, route='xml'):
        data = xmlout.ili_tsv(f)
        d = self.W.workdir('ili-%s-%d' % (f['name'], self.step))
        return xmlout.package(route, d, f['name'], data, ext='.tsv'), data

    def call(self, fn, *a, **kw):
        """Run one API call under the statement budget; returns (result, exception)."""
        a = tuple(self.W.spell(x) for x in a)
        try:
            with warnings.catch_warnings():
                warnings.simplefilter('ignore')
                return fn(*a, **kw), None
        except SimBudget:
            raise
        except (Exception, SimInterrupt, SimExit, SimCancel) as e:
            # drop the traceback: a retained traceback keeps wn's cursor objects (and any
            # statement still active on them) alive, which ordinary callers do not do
            e.tb_text = traceback.format_exception(e)[-3:]
            e.__traceback__ = None
            if e.__context__ is not None:
                e.__context__.__traceback__ = None
            if e.__cause__ is not None:
                e.__cause__.__traceback__ = None
            return None, e

    def violation(self, oracle, message, detail=None, tags=()):
        return Violation(self.prop, oracle, message, detail, tags)

    # -- ops ---------------------------------------------------------------------------------
    def do(self, op):
        self.step += 1
        self.stats['ops'] += 1
        kind = op['op']
        W = self.W
        W.log(step=self.step, op=op)
        getattr(self, 'op_' + kind)(op)
        self.after_op(op)

    def _knobs(self, op):
        W = self.W
        W.set_batch(op.get('batch', 1000))
        W.short_reads = bool(op.get('short_reads'))
        W.shuffle_dirs = bool(op.get('shuffle_dirs', True))

    def _arm(self, fault):
        f = self.W.faults
        if not fault:
            return
        k = fault['kind']
        if k == 'F1':
            f.cb_at = fault['at']
            f.cb_exc = fault.get('exc', 'fault')
        elif k == 'F3':
            f.stmt_at = fault['at']
            f.stmt_err = fault.get('err', 'disk I/O error')
            f.stmt_mid = bool(fault.get('mid'))
        elif k == 'F3c':
            f.commit_fail = True
        elif k == 'F2':
            f.auth_at = fault['at']
            self.W.arm_authorizer()
        elif k == 'F5':
            f.vm_at = fault['at']
            f.vm_interval = fault.get('interval', 7)
        else:
            raise ValueError(k)

    def raw_add(self, path, route):
        path = self.W.spell(path)
        if route == 'mem':
            # callers may keep a loaded resource and hand the same object in again later
            cache = self.__dict__.setdefault('_mem_resources', {})
            key = getattr(self, '_mem_key', None)
            if key is not None and key in cache:
                resource = cache[key]
                self.probe('mem-resource-reused')
            else:
                resource = wn.lmf.load(path, progress_handler=SimHandler)
                if self.W.typed_scores:
                    # the caller edits what it loaded: confidence scores as the floats
                    # lmf.Metadata declares (only where the float prints as the same text)
                    if type_scores(resource):
                        self.probe('mem-resource-float-scores')
                if key is not None:
                    cache[key] = resource
            wn.add_lexical_resource(resource, progress_handler=SimHandler)
        elif route in ('dl-url', 'dl-project'):
            self.raw_download(path, route)
        else:
            wn.add(path, progress_handler=SimHandler)

    def raw_download(self, path, route, spec=None):
        """wn.download() of a resource that is already in the download cache (no network):
        by URL, or by project specifier through the project index."""
        import re as _re
        with open(os.path.expanduser(str(path)), 'rb') as fh:
            data = fh.read()
        spec = spec or getattr(self, '_dl_spec', None) or 'x:1'
        pid, _, pver = spec.partition(':')
        plain = bool(_re.fullmatch(r'[A-Za-z0-9.+-]+', pid)) and bool(
            _re.fullmatch(r'[A-Za-z0-9.+-]+', pver))
        url = 'https://example.invalid/releases/%s/%s' % (
            ''.join(c if c.isalnum() else '_' for c in pid),
            ''.join(c if c.isalnum() else '_' for c in pver) or 'none')
        if route == 'dl-project' and plain:
            try:
                wn.config.add_project(pid, label='Project ' + pid, language='en', license='MIT')
            except Exception:
                pass
            try:
                wn.config.add_project_version(pid, pver, url=url)
            except Exception:
                pass
            target = spec
        else:
            target = url
        cache = wn.config.get_cache_path(url)
        with open(cache, 'wb') as fh:
            fh.write(data)
        self.probe('download-route')
        wn.download(target, progress_handler=SimHandler)

    def op_add(self, op):
        res = self.res[op['res']]
        route = op.get('route', 'xml')
        path, data = self.materialise(res, route, op.get('quote', '"'), style=op.get('style'),
                                      siblings=op.get('siblings'))
        f6 = op.get('fault') if (op.get('fault') or {}).get('kind') == 'F6' else None
        if f6:
            # torn / short write of the file being added: the tail is missing
            cut = max(1, min(len(data) - 2, int(len(data) * f6['cut'])))
            with open(self._resource_file(path), 'wb') as fh:
                fh.write(data[:cut])
        self._knobs(op)
        W = self.W
        W.begin_op(budget=self.budget, record=bool(op.get('record')))
        self._arm(None if f6 else op.get('fault'))
        self._dl_spec = res['lexicons'][0]
        self._mem_key = (op['res'], op.get('quote', '"')) if (
            route == 'mem' and not op.get('style') and not op.get('fault')) else None
        _, exc = self.call(self.raw_add, path, route)
        counters = dict(W.counters)
        fired = W.end_op()
        if f6:
            # a torn file must be rejected - unless add() had nothing to add from it anyway
            if exc is not None or not self.m.plan_add(res['lexicons']):
                fired = fired + ['F6-torn-input-file']
            else:
                got = sorted(lx.specifier() for lx in wn.lexicons())
                if got != sorted(self.m.installed):
                    raise self.violation('torn-file-accepted', 'add() of a truncated file '
                                         'reported success and changed the database',
                                         {'op': op, 'installed': got})
                fired = fired + ['F6-torn-input-file']
            if op.get('repair') and exc is not None and route != 'mem' \
                    and not route.startswith(('tar', 'tgz', 'txz')) and os.path.isfile(
                        self._resource_file(path)):
                # the copy completes: the SAME file is rewritten in place (nothing is created
                # or renamed, so no directory changes) and the same path is supplied again
                with open(self._resource_file(path), 'r+b') as fh:
                    fh.seek(0)
                    fh.write(data)
                    fh.truncate()
                W.begin_op(budget=self.budget)
                _, exc2 = self.call(self.raw_add, path, route)
                W.end_op()
                if exc2 is not None:
                    raise self.violation('add-raises', 'add of a repaired file (rewritten in '
                                         'place after a torn copy was rejected) raised %s'
                                         % type(exc2).__name__,
                                         {'exc': repr(exc2), 'op': op})
                self.probe('torn-file-repaired-in-place')
                fired = []
                exc = None
        W.set_batch(1000)
        W.short_reads = False
        todo = self.m.plan_add(res['lexicons'])
        self.last = {'exc': exc, 'fired': fired, 'counters': counters, 'todo': todo}
        for f in fired:
            self.stats['faults'][f] = self.stats['faults'].get(f, 0) + 1
        if fired:
            # a faulted op is a no-op for the model; the C06 oracles decide the rest
            self.last['faulted'] = True
            if exc is None and todo and not f6:
                raise self.violation('fault-swallowed', 'add reported success although a fault '
                                     'was injected', {'fired': fired, 'op': op})
            W.log(step=self.step, outcome='fault', exc=type(exc).__name__ if exc else None)
            return
        if exc is not None:
            raise self.violation('add-raises', 'add of a valid resource raised %s'
                                 % type(exc).__name__,
                                 {'exc': repr(exc), 'op': op,
                                  'tb': getattr(exc, 'tb_text', None)})
        self.m.add_resource(res['lexicons'])
        for n in op.get('siblings', []) or []:
            # packages of a collection are mutually independent by construction, so the
            # directory order cannot change what is installed
            self.m.add_resource(self.res[n]['lexicons'])
            self.probe('collection-package')
        if op.get('siblings'):
            self.sync_order()
        if todo:
            self.probe('add-installs')
        else:
            self.probe('add-all-skipped')
        W.log(step=self.step, outcome='ok', installed=list(self.m.installed))

    @staticmethod
    def _resource_file(path):
        """The resource file behind a supplied path (the file itself, or the one inside a
        package directory)."""
        if os.path.isdir(path):
            for n in sorted(os.listdir(path)):
                if n.endswith(('.xml', '.tsv')) and not n.startswith(('notes', 'mapping')):
                    return os.path.join(path, n)
        return path

    def op_add_ili(self, op):
        f = self.ilif[op['file']]
        path, _ = self.materialise_ili(f, op.get('route', 'xml'))
        self._knobs(op)
        W = self.W
        W.begin_op(budget=self.budget)
        self._arm(op.get('fault'))
        if op.get('route') == 'dl-url':
            _, exc = self.call(self.raw_download, path, 'dl-url', 'ili-%s:1' % f['name'])
        else:
            _, exc = self.call(wn.add, path, progress_handler=SimHandler)
        fired = W.end_op()
        W.set_batch(1000)
        self.last = {'exc': exc, 'fired': fired}
        for x in fired:
            self.stats['faults'][x] = self.stats['faults'].get(x, 0) + 1
        if fired:
            self.last['faulted'] = True
            W.log(step=self.step, outcome='fault', exc=type(exc).__name__ if exc else None)
            return
        if exc is not None:
            raise self.violation('add-ili-raises', 'add of a valid ILI file raised %s'
                                 % type(exc).__name__, {'exc': repr(exc), 'op': op})
        self.m.add_ili(f)
        self.reconcile_ili_repeats(f)
        W.log(step=self.step, outcome='ok')

    def reconcile_ili_repeats(self, f):
        """Ids listed on several lines of one index file: no property says which line wins,
        so the model adopts what the store holds provided it is one of the file's lines for
        that id (reload and commutation oracles still bind the choice)."""
        if any(r.get('blank') for r in f['rows']):
            # an empty line lists nothing; whether it leaves an ILI with the empty id behind is
            # not stated anywhere: the model follows the store for that one key
            self.probe('ili-file-with-empty-line')
            d0 = observe.logical_dump(self.W.dbpath())
            got0 = {r[0]: [r[1], r[2]] for r in d0['shared']['ilis']}
            if '' in got0:
                self.m.ilis[''] = {'status': got0[''][0], 'definition': got0[''][1],
                                   'meta': None}
                self.m.ili_statuses.add(got0[''][0])
            else:
                self.m.ilis.pop('', None)
        lines = {}
        for r in [x for x in f['rows'] if not x.get('blank')]:
            st = r.get('status', 'active') if 'status' in f['columns'] else 'active'
            df = r.get('definition', '') if 'definition' in f['columns'] else None
            lines.setdefault(r['ili'], []).append([st, df])
        rep = {k: v for k, v in lines.items() if len(v) > 1}
        if not rep:
            return
        self.probe('ili-file-repeats-an-id')
        d = observe.logical_dump(self.W.dbpath())
        got = {r[0]: [r[1], r[2]] for r in d['shared']['ilis']}
        for k, cands in sorted(rep.items()):
            if got.get(k) not in cands:
                raise self.violation('ili-table', 'an ILI listed on several lines of the index '
                                     'file ends with a status/definition that is none of its '
                                     'lines', {'ili': k, 'observed': got.get(k), 'lines': cands})
            self.m.ilis[k]['status'], self.m.ilis[k]['definition'] = got[k]

    def op_rerelease(self, op):
        """Other content is published under the id:version of a lexicon that is not
        installed (any more): from now on resources carry the new content."""
        if self.m.rerelease(op['spec']):
            self.probe('rerelease')
            self.__dict__.pop('_mem_resources', None)
            self.W.log(step=self.step, outcome='rereleased')
        else:
            self.W.log(step=self.step, outcome='skipped')

    def op_switch(self, op):
        """The caller points wn.config.data_directory at another data directory (optionally
        from a fresh process: no pooled connection of either directory survives)."""
        if op.get('restart'):
            self.W.restart()
        self.models[self.W.cur] = self.m
        self.W.use(op['node'])
        if op['node'] not in self.models:
            self.models[op['node']] = Model(self.u)
        self.m = self.models[op['node']]
        self.probe('switch-data-directory')
        self.W.log(step=self.step, outcome='switched')

    def op_remove(self, op):
        W = self.W
        matched = self.m.select(op['spec'])
        W.begin_op(budget=self.budget)
        self._arm(op.get('fault'))
        _, exc = self.call(wn.remove, op['spec'], progress_handler=SimHandler)
        fired = W.end_op()
        self.last = {'exc': exc, 'fired': fired, 'matched': matched}
        for x in fired:
            self.stats['faults'][x] = self.stats['faults'].get(x, 0) + 1
        if fired:
            self.last['faulted'] = True
            W.log(step=self.step, outcome='fault', exc=type(exc).__name__ if exc else None)
            return
        if not matched:
            if exc is not None and not isinstance(exc, wn.Error):
                raise self.violation('remove-nomatch', 'remove of a specifier matching nothing '
                                     'raised %s' % type(exc).__name__,
                                     {'exc': repr(exc), 'op': op})
            W.log(step=self.step, outcome='nomatch')
            return
        if exc is not None:
            raise self.violation('remove-raises', 'remove raised %s' % type(exc).__name__,
                                 {'exc': repr(exc), 'op': op})
        self.m.remove_specs(matched)
        self.probe('remove-ok')
        W.log(step=self.step, outcome='ok', installed=list(self.m.installed))

    def op_external(self, op):
        """The same add/remove performed by ANOTHER PROCESS on the same data directory while
        this process keeps its pooled connection (and whatever it remembers) alive."""
        import subprocess
        import sys
        inner = op['do']
        W = self.W
        if inner['op'] == 'add':
            res = self.res[inner['res']]
            path, _ = self.materialise(res, 'xml')
            call = 'wn.add(%r, progress_handler=None)' % str(path)
        else:
            call = 'wn.remove(%r, progress_handler=None)' % inner['spec']
        code = ('import sys; sys.path.insert(0, %r); import wn; '
                'wn.config.data_directory = %r; %s' % (_world.REPO, W.node(W.cur), call))
        env = dict(os.environ)
        env['PYTHONDONTWRITEBYTECODE'] = '1'
        script = os.path.join(W.workdir('external-%d' % self.step), 'op.py')
        with open(script, 'w', encoding='utf-8') as fh:      # argv may not be encodable
            fh.write('# -*- coding: utf-8 -*-\n' + code.replace('; ', '\n') + '\n')
        p = subprocess.run([sys.executable, script], capture_output=True, timeout=120, env=env)
        p.stderr = p.stderr.decode('utf-8', 'replace')
        self.last = {}
        self.probe('external-process-op')
        if inner['op'] == 'add':
            if p.returncode != 0:
                raise self.violation('external-add-fails', 'add of a valid resource by a second '
                                     'process failed', {'stderr': p.stderr[-800:], 'op': op})
            self.m.add_resource(self.res[inner['res']]['lexicons'])
        else:
            matched = self.m.select(inner['spec'])
            if matched and p.returncode != 0:
                raise self.violation('external-remove-fails', 'remove by a second process '
                                     'failed', {'stderr': p.stderr[-800:], 'op': op})
            if matched:
                self.m.remove_specs(matched)
        W.log(step=self.step, outcome='external', installed=list(self.m.installed))

    def op_restart(self, op):
        self.W.restart()
        self.probe('restart')

    def op_checkpoint(self, op):
        self.check_fresh()

    # -- oracles -----------------------------------------------------------------------------
    def sync_order(self):
        """The packages of a collection are added in directory order, which the OS (here:
        the seeded iterdir shim) decides: take the *order* of the installed list from the
        store (the set itself is checked by the 'installed' oracle)."""
        conn = observe.observer(self.W.dbpath())
        try:
            order = ['%s:%s' % (r[0], r[1]) for r in conn.execute(
                'SELECT id, version FROM lexicons ORDER BY rowid')]
        finally:
            conn.close()
        if sorted(order) == sorted(self.m.installed):
            self.m.installed = order

    def reconcile(self, op, last):
        """After a faulted op the model is a no-op - or, for the per-lexicon transactions of
        a multi-match removal, the prefix state the observation shows."""
        F_CLOSE = 'C06-handler-close-raises-after-commit'
        if op['op'] == 'add_ili' and last.get('fired') == ['F1-handler-close'] \
                and F_CLOSE in compare.ENABLED_FINDINGS:
            # the known finding: the handler's close() is called after the commit, so the
            # load is durable although the call raised
            f = self.ilif[op['file']]
            d = observe.logical_dump(self.W.dbpath())
            got_ili = {r[0]: [r[1], r[2]] for r in d['shared']['ilis']}
            now = {k: [v['status'], v['definition']] for k, v in self.m.ilis.items()}
            if got_ili != now:
                compare.note_known(F_CLOSE)
                self.m.add_ili(f)
                self.reconcile_ili_repeats(f)
            return
        got = sorted(lx.specifier() for lx in wn.lexicons())
        if got == sorted(self.m.installed):
            return
        m2 = self.m.copy()
        if op['op'] == 'remove':
            matched = m2.select(op['spec'])
            for j in range(len(matched)):
                m2.remove_specs(matched[j:j + 1])
                if sorted(m2.installed) == got and j < len(matched) - 1:
                    self.m = m2
                    self.probe('faulted-remove-prefix-state')
                    return
        if op['op'] == 'add' and op.get('siblings'):
            # a collection is added package by package (one transaction each): any set of
            # completely added packages is an accepted state
            import itertools
            names = [op['res']] + list(op['siblings'])
            for k in range(1, len(names) + 1):
                for sub in itertools.combinations(names, k):
                    mm = self.m.copy()
                    for n in sub:
                        mm.add_resource(self.res[n]['lexicons'])
                    if sorted(mm.installed) == got and (k < len(names) or True):
                        self.m = mm
                        self.sync_order()
                        self.probe('faulted-collection-prefix-state')
                        return
        m3 = self.m.copy()
        if op['op'] == 'add':
            m3.add_resource(self.res[op['res']]['lexicons'])
        elif op['op'] == 'remove':
            m3.remove_specs(m3.select(op['spec']))
        if (sorted(m3.installed) == got and last['fired'] == ['F1-handler-close']
                and F_CLOSE in compare.ENABLED_FINDINGS):
            compare.note_known(F_CLOSE)
            self.m = m3
            return
        raise self.violation('durable-state', 'failed %s changed the installed set' % op['op'],
                             {'op': op, 'fired': last['fired'], 'observed': got,
                              'expected': sorted(self.m.installed)}, tags=['partial'])

    def after_op(self, op):
        last = getattr(self, 'last', None) or {}
        if last.get('faulted'):
            self.reconcile(op, last)
            self.last = {}
            conn = wn._db.pool.get(wn.config.database_path)
            if conn is not None and conn.in_transaction:
                raise self.violation('open-transaction', 'pooled connection left inside a '
                                     'transaction after a failed %s' % op['op'], {'op': op})
        st = observe.digest([self.m.installed, sorted(self.m.ilis)])
        self.stats['states'].add(st)
        if os.environ.get('VERIF_DIGEST_STATE') == '1':
            # determinism self-test: the event log also carries what was observed
            d = observe.logical_dump(self.W.dbpath())
            self.W.log(step=self.step, observed=observe.digest([d['lexicons'], d['shared']]))
        if 'installed' in self.oracles:
            self.check_installed()
        if 'image' in self.oracles:
            self.check_images()
        if 'integrity' in self.oracles:
            self.check_integrity()

    def check_installed(self):
        got, exc = self.call(lambda: sorted(lx.specifier() for lx in wn.lexicons()))
        if exc is not None:
            raise self.violation('installed', 'wn.lexicons() raised', {'exc': repr(exc)})
        if got != sorted(self.m.installed):
            raise self.violation('installed', 'installed set differs from the model',
                                 {'observed': got, 'expected': sorted(self.m.installed)})
        self.check_lookups()

    def check_lookups(self):
        """Lookup values exist exactly for what was ever installed (they are never deleted):
        nothing leaks from skipped lexicons or rolled-back adds."""
        import os
        if not os.path.exists(self.W.dbpath()):
            return
        conn = observe.observer(self.W.dbpath())
        try:
            rt = sorted(r[0] for r in conn.execute('SELECT type FROM relation_types'))
            lf = sorted(r[0] for r in conn.execute('SELECT name FROM lexfiles'))
        except Exception:
            return
        finally:
            conn.close()
        if rt != sorted(self.m.reltypes) or lf != sorted(self.m.lexfiles):
            raise self.violation(
                'lookup-tables', 'lookup tables hold values of lexicons that were never '
                'installed (or miss values of installed ones)',
                {'relation_types_extra': sorted(set(rt) - self.m.reltypes),
                 'relation_types_missing': sorted(self.m.reltypes - set(rt)),
                 'lexfiles_extra': sorted(set(lf) - self.m.lexfiles),
                 'lexfiles_missing': sorted(self.m.lexfiles - set(lf))})

    def families(self):
        return [[sp] + self.m.extensions_of(sp) for sp in self.m.installed
                if self.m.idx[sp].base is None]

    def check_images(self, relations=True):
        self.W.begin_op(budget=self.budget * 20)
        try:
            for fam in self.families():
                w, exc = self.call(wn.Wordnet, lexicon=' '.join(fam), expand='')
                if exc is not None:
                    raise self.violation('image', 'Wordnet() raised', {'exc': repr(exc),
                                                                       'scope': fam})
                try:
                    obs = observe.image(w, relations=relations)
                except SimBudget:
                    raise
                except Exception as e:
                    raise self.violation('image', 'observation raised %s' % type(e).__name__,
                                         {'exc': repr(e), 'scope': fam,
                                          'tb': traceback.format_exception(e)[-3:]})
                exp = self.m.image(fam, relations=relations)
                d = compare.diff(exp, obs)
                if d:
                    path, msg, detail = d[0]
                    raise self.violation('image', '%s: %s' % (generalize(path), msg),
                                         {'scope': fam, 'path': path, 'diff': detail,
                                          'more': [x[0] for x in d[1:6]]},
                                         tags=self.cause_tags(path, fam))
                self.check_describe(w, fam)
                self.check_search_routes(fam, exp, relations)
        finally:
            self.W.end_op()

    def check_search_routes(self, fam, exp, relations):
        """Words, senses and synsets found by a word-form search - under any combination of
        the constructor options search_all_forms / normalizer / lemmatizer, with and without
        a part-of-speech filter, positional or by keyword - are the same stored entities and
        report the same content as when enumerated."""
        import random
        import wn.morphy
        rng = random.Random('%s:routes:%d:%s' % (self.seed, self.step, fam[0]))
        keys = sorted(exp['words'])
        if not keys:
            return
        opts = rng.choice([{'search_all_forms': False}, {'normalizer': None},
                           {'lemmatizer': wn.morphy.Morphy()},
                           {'normalizer': None, 'search_all_forms': False}, {}])
        w2, exc = self.call(wn.Wordnet, lexicon=' '.join(fam), expand='', **opts)
        if exc is not None:
            raise self.violation('search-route', 'Wordnet() raised', {'exc': repr(exc),
                                                                      'scope': fam})
        shown = {k: (type(v).__name__ if k == 'lemmatizer' else v) for k, v in opts.items()}
        for key in rng.sample(keys, min(3, len(keys))):
            lemma, pos = exp['words'][key]['lemma'], exp['words'][key]['pos']
            call = rng.choice([((lemma,), {}), ((lemma, pos), {}), ((lemma,), {'pos': pos}),
                               ((), {'form': lemma, 'pos': pos})])
            ctx = {'scope': fam, 'options': shown, 'args': [list(call[0]), call[1]]}
            found = w2.words(*call[0], **call[1])
            mine = [h for h in found if observe.ekey(h) == key]
            if len(mine) != 1:
                raise self.violation('search-route', 'a word is not found (exactly once) by '
                                     'its own lemma', dict(ctx, word=key,
                                                           found=[observe.ekey(h) for h in found]))
            d = compare.diff(exp['words'][key], observe.word_obs(mine[0]))
            if d:
                raise self.violation('search-route', 'a word found by a form search reports '
                                     'other content than the same word enumerated: %s'
                                     % generalize('/words/x' + d[0][0]),
                                     dict(ctx, word=key, path=d[0][0], diff=d[0][2]))
            for h in w2.senses(*call[0], **call[1]):
                k2 = observe.ekey(h)
                if k2 in exp['senses']:
                    d = compare.diff(exp['senses'][k2], observe.sense_obs(h, relations))
                    if d:
                        raise self.violation('search-route', 'a sense found by a form search '
                                             'reports other content than the same sense '
                                             'enumerated', dict(ctx, sense=k2, path=d[0][0],
                                                                diff=d[0][2]))
            for h in w2.synsets(*call[0], **call[1]):
                k2 = observe.ekey(h)
                if k2 in exp['synsets']:
                    d = compare.diff(exp['synsets'][k2], observe.synset_obs(h, relations))
                    if d:
                        raise self.violation('search-route', 'a synset found by a form search '
                                             'reports other content than the same synset '
                                             'enumerated', dict(ctx, synset=k2, path=d[0][0],
                                                                diff=d[0][2]))
            self.probe('search-route-compared')

    def check_describe(self, w, fam):
        """Lexicon.describe(): the counts it prints are those of the lexicon's own content."""
        for lx in w.lexicons():
            sp = lx.specifier()
            want = self.m.describe_counts(sp)
            if None in want['words'] or None in want['synsets']:
                continue          # (describe() sorts the parts of speech)
            text, exc = self.call(lx.describe)
            if exc is not None:
                raise self.violation('describe', 'Lexicon.describe() raised %s'
                                     % type(exc).__name__, {'lexicon': sp, 'exc': repr(exc)})
            got = parse_describe(text)
            if got != want:
                raise self.violation('describe', 'Lexicon.describe() reports other counts than '
                                     'the lexicon\'s own content',
                                     {'lexicon': sp, 'scope': fam, 'observed': got,
                                      'expected': want, 'text': text})
            self.probe('describe-compared')

    def cause_tags(self, path, fam):
        return []

    def check_integrity(self):
        r = observe.integrity(self.W.dbpath())
        if r['foreign_key_check'] or r['integrity_check'] != ['ok']:
            raise self.violation('integrity', 'PRAGMA foreign_key_check/integrity_check '
                                 'not clean', r)

    def build_fresh(self, node='fresh'):
        """A database built by adding exactly the model's installed lexicons to an empty
        one (plain XML, default knobs, one lexicon per file)."""
        W = self.W
        cur = W.cur
        d = W.node(node)
        W.restore(None, node)
        W.use(node)
        try:
            W.begin_op()
            for i, sp in enumerate(self.m.installed):
                doc = self.u['lexicons'][sp]
                ver = next(r['lmf_version'] for r in self.u['resources']
                           if sp in r['lexicons'])
                data = xmlout.Writer(ver).resource([doc]).encode('utf-8')
                p = xmlout.package('xml', W.workdir('fresh-%d' % self.step), 'f%d' % i, data)
                wn.add(p, progress_handler=None)
            W.end_op()
            W.restart()
        finally:
            W.use(cur)
        return W.dbpath(node)

    def check_fresh(self):
        W = self.W
        fresh = self.build_fresh()
        W.restart()
        a = observe.logical_dump(W.dbpath())
        b = observe.logical_dump(fresh)
        self.probe('fresh-compare')
        a['lexicons'].setdefault('*ownerless*', {})
        b['lexicons'].setdefault('*ownerless*', {})
        ka, kb = set(a['lexicons']), set(b['lexicons'])
        if ka != kb:
            raise self.violation('fresh', 'owners of rows differ from a fresh database',
                                 {'history': sorted(map(str, ka)), 'fresh': sorted(map(str, kb))},
                                 tags=['residue-owner'] if ka - kb else [])
        for owner in sorted(ka, key=str):
            ta, tb = a['lexicons'][owner], b['lexicons'][owner]
            for table in sorted(set(ta) | set(tb)):
                ra, rb = ta.get(table, []), tb.get(table, [])
                if (owner == '*ownerless*' and table in ('tags', 'pronunciations')
                        and F_RESIDUE in compare.ENABLED_FINDINGS and self.m.residue):
                    keep = []
                    budget = {}
                    for r in rb:
                        budget[compare.canon(r)] = budget.get(compare.canon(r), 0) + 1
                    for r in ra:
                        c = compare.canon(r)
                        if budget.get(c, 0) > 0:
                            budget[c] -= 1
                            keep.append(r)
                        elif r[0] and r[0][0] in self.m.residue:
                            compare.note_known(F_RESIDUE)
                        else:
                            keep.append(r)
                    ra = keep
                if ra != rb:
                    extra = [r for r in ra if r not in rb][:4]
                    missing = [r for r in rb if r not in ra][:4]
                    raise self.violation(
                        'fresh', 'table %s of %s differs from a fresh database'
                        % (table, 'ownerless rows' if owner == '*ownerless*' else 'a lexicon'),
                        {'owner': owner, 'table': table, 'only_in_history': extra,
                         'only_in_fresh': missing},
                        tags=['residue'] if extra and not missing else [])
