"""Our own WN-LMF 1.0-1.3 writer and packagers (gz, xz, package dir, collection, tar).

Deliberately independent of ``wn.lmf.dump``: written against the WN-LMF DTDs.
"""
from __future__ import annotations

import gzip
import io
import lzma
import os
import tarfile

from .universe import DC_KEYS

XMLDECL = '<?xml version="1.0" encoding="UTF-8"?>'
DOCTYPE = '<!DOCTYPE LexicalResource SYSTEM "http://globalwordnet.github.io/schemas/WN-LMF-%s.dtd">'
DC_URI = {
    '1.0': 'http://purl.org/dc/elements/1.1/',
    '1.1': 'https://globalwordnet.github.io/schemas/dc/',
    '1.2': 'https://globalwordnet.github.io/schemas/dc/',
    '1.3': 'https://globalwordnet.github.io/schemas/dc/',
}


def esc_attr(v: str, q: str = '"') -> str:
    v = v.replace('&', '&amp;').replace('<', '&lt;').replace('>', '&gt;')
    v = v.replace('\t', '&#9;').replace('\n', '&#10;').replace('\r', '&#13;')
    if q == '"':
        v = v.replace('"', '&quot;')
    else:
        v = v.replace("'", '&apos;')
    return v


def esc_text(v: str) -> str:
    return v.replace('&', '&amp;').replace('<', '&lt;').replace('>', '&gt;')


class Writer:
    def __init__(self, version: str, quote: str = '"', indent: bool = True, style=None):
        self.v = version
        self.ge11 = version != '1.0'
        self.q = quote
        self.out: list[str] = []
        self.indent = indent
        # lexical variations that must not matter to a conforming reader
        # style = {'seed': int, 'shuffle_attrs': bool, 'cdata': bool, 'comments': bool,
        #          'charrefs': bool}
        self.style = style or {}
        import random as _random
        self.srng = _random.Random('style:%s' % self.style.get('seed', 0))

    # -- primitives -----------------------------------------------------------------
    def attrs(self, pairs) -> str:
        q = self.q
        pairs = [(k, v) for k, v in pairs if v is not None]
        if self.style.get('shuffle_attrs'):
            self.srng.shuffle(pairs)
        ref = (lambda t: ''.join(c if ord(c) < 127 else '&#%d;' % ord(c) for c in t)) \
            if self.style.get('charrefs') else (lambda t: t)
        esc = esc_attr
        if self.style.get('raw_gt'):
            # ">" may stand for itself in an attribute value; so may the other quote character
            esc = (lambda v, qq: esc_attr(v, qq).replace('&gt;', '>'))
        eq = '='
        sep = ' '
        if self.style.get('loose_attrs'):
            # white space is allowed around "=" and any white space may separate attributes
            eq = self.srng.choice([' = ', '= ', ' =', '\n    = '])
            sep = self.srng.choice([' ', '  ', '\n      ', '\t'])
        if self.style.get('mixed_quotes'):
            return ''.join('%s%s%s%s%s%s' % (sep, k, eq, qq, ref(esc(str(v), qq)), qq)
                           for (k, v), qq in ((pv, self.srng.choice('"\'')) for pv in pairs))
        return ''.join('%s%s%s%s%s%s' % (sep, k, eq, q, ref(esc(str(v), q)), q)
                       for k, v in pairs if v is not None)

    def meta_pairs(self, meta):
        if not meta:
            return []
        out = []
        for k in DC_KEYS:
            if k in meta:
                out.append(('dc:' + k, meta[k]))
        for k in ('status', 'note', 'confidenceScore'):
            if k in meta:
                out.append((k, meta[k]))
        return out

    def line(self, depth, s):
        self.out.append(('  ' * depth if self.indent else '') + s)
        if self.style.get('comments') and len(self.out) > 3 and self.srng.random() < 0.15:
            self.out.append(self.srng.choice([
                '<!-- <Lexicon id="fake" version="0"> %s & -->' % self.srng.choice(['x', '>', 'é']),
                '<!-- markup quoted in a comment: <?php echo -->',
                '<!-- ... and its end: ?> <LexiconExtension id="fake2" version="0"> -->',
                '<?render mode="draft"?>']))

    def etext(self, v: str) -> str:
        if self.style.get('cdata') and ']]>' not in v and self.srng.random() < 0.4:
            return '<![CDATA[%s]]>' % v
        t = esc_text(v)
        if self.style.get('charrefs'):
            t = ''.join(c if ord(c) < 128 else '&#x%X;' % ord(c) for c in t)
        return t

    def empty(self, depth, name, pairs):
        self.line(depth, '<%s%s/>' % (name, self.attrs(pairs)))

    def open(self, depth, name, pairs):
        self.line(depth, '<%s%s>' % (name, self.attrs(pairs)))

    def close(self, depth, name):
        self.line(depth, '</%s>' % name)

    def space_pairs(self, elem):
        # WN-LMF 1.3 allows xml:space on nodes with text content
        return [('xml:space', elem.get('space') if self.v == '1.3' else None)]

    def textelem(self, depth, name, pairs, text):
        self.line(depth, '<%s%s>%s</%s>' % (name, self.attrs(pairs), self.etext(text), name))

    # -- document -------------------------------------------------------------------
    def resource(self, lexdocs) -> str:
        self.out = [XMLDECL, DOCTYPE % self.v]
        self.line(0, '<LexicalResource xmlns:dc=%s%s%s>' % (self.q, DC_URI[self.v], self.q))
        for doc in lexdocs:
            self.lexicon(doc)
        self.line(0, '</LexicalResource>')
        return '\n'.join(self.out) + '\n'

    def lexicon(self, d):
        name = 'LexiconExtension' if d.get('extends') else 'Lexicon'
        pairs = [('id', d['id']), ('label', d['label']), ('language', d['language']),
                 ('email', d['email']), ('license', d['license']), ('version', d['version']),
                 ('url', d.get('url')), ('citation', d.get('citation'))]
        if self.ge11:
            pairs.append(('logo', d.get('logo')))
        pairs += self.meta_pairs(d.get('meta'))
        self.open(1, name, pairs)
        if d.get('extends'):
            e = d['extends']
            self.empty(2, 'Extends', [('id', e['id']), ('version', e['version']),
                                      ('url', e.get('url'))])
        if self.ge11:
            for r in d.get('requires', []):
                self.empty(2, 'Requires', [('id', r['id']), ('version', r['version']),
                                           ('url', r.get('url'))])
        for e in d.get('entries', []):
            self.entry(e)
        for ss in d.get('synsets', []):
            self.synset(ss)
        if self.ge11:
            for fr in d.get('frames', []):
                self.empty(2, 'SyntacticBehaviour',
                           [('id', fr.get('id')),
                            ('subcategorizationFrame', fr['subcategorizationFrame']),
                            ('senses', ' '.join(fr['senses']) if fr.get('senses') else None)])
        self.close(1, name)

    def form_children(self, depth, f):
        if self.ge11:
            for p in f.get('pronunciations', []):
                ph = p.get('phonemic')
                self.textelem(depth, 'Pronunciation',
                              [('variety', p.get('variety')), ('notation', p.get('notation')),
                               ('phonemic', None if ph is None else ('true' if ph else 'false')),
                               ('audio', p.get('audio'))], p['text'])
        for t in f.get('tags', []):
            self.textelem(depth, 'Tag', [('category', t['category'])], t['text'])

    def has_children(self, f):
        return bool((self.ge11 and f.get('pronunciations')) or f.get('tags'))

    def entry(self, e):
        ext = e.get('external')
        name = 'ExternalLexicalEntry' if ext else 'LexicalEntry'
        pairs = [('id', e['id'])]
        if not ext:
            pairs += self.meta_pairs(e.get('meta'))
        self.open(2, name, pairs)
        lem = e.get('lemma')
        if lem is not None:
            if lem.get('external'):
                lname, lpairs = 'ExternalLemma', []
            else:
                lname = 'Lemma'
                lpairs = [('writtenForm', lem['writtenForm']), ('script', lem.get('script')),
                          ('partOfSpeech', lem['partOfSpeech'])]
            if self.has_children(lem):
                self.open(3, lname, lpairs)
                self.form_children(4, lem)
                self.close(3, lname)
            else:
                self.empty(3, lname, lpairs)
        for f in e.get('forms', []):
            if f.get('external'):
                fname, fpairs = 'ExternalForm', [('id', f['id'])]
            else:
                fname = 'Form'
                fpairs = [('id', f.get('id') if self.ge11 else None),
                          ('writtenForm', f['writtenForm']), ('script', f.get('script'))]
            if self.has_children(f):
                self.open(3, fname, fpairs)
                self.form_children(4, f)
                self.close(3, fname)
            else:
                self.empty(3, fname, fpairs)
        for s in e.get('senses', []):
            self.sense(s)
        for fr in e.get('frames', []):
            self.empty(3, 'SyntacticBehaviour',
                       [('subcategorizationFrame', fr['subcategorizationFrame']),
                        ('senses', ' '.join(fr['senses']) if fr.get('senses') else None)])
        self.close(2, name)
        if ext and self.style.get('dup_stubs'):
            # the same base entry mentioned again (one block per contributor): a bare stub
            # that only names the entry and its external senses adds nothing
            stubs = [s_ for s_ in e.get('senses', []) if s_.get('external')]
            if stubs:
                self.open(2, name, pairs)
                for s_ in stubs:
                    self.empty(3, 'ExternalSense', [('id', s_['id'])])
                self.close(2, name)

    def example(self, depth, ex):
        self.textelem(depth, 'Example',
                      [('language', ex.get('language'))] + self.space_pairs(ex)
                      + self.meta_pairs(ex.get('meta')), ex['text'])

    def relation(self, depth, name, r):
        self.empty(depth, name, [('relType', r['relType']), ('target', r['target'])]
                   + self.meta_pairs(r.get('meta')))

    def sense(self, s):
        ext = s.get('external')
        name = 'ExternalSense' if ext else 'Sense'
        pairs = [('id', s['id'])]
        if not ext:
            lx = s.get('lexicalized')
            pairs += [('synset', s['synset']),
                      ('lexicalized', None if lx is None else ('true' if lx else 'false')),
                      ('adjposition', s.get('adjposition'))]
            if self.ge11 and s.get('subcat'):
                pairs.append(('subcat', ' '.join(s['subcat'])))
            if self.ge11 and s.get('n') is not None:
                pairs.append(('n', str(s['n'])))
            pairs += self.meta_pairs(s.get('meta'))
        kids = s.get('relations') or s.get('examples') or s.get('counts')
        if not kids:
            self.empty(3, name, pairs)
            return
        self.open(3, name, pairs)
        for r in s.get('relations', []):
            self.relation(4, 'SenseRelation', r)
        for ex in s.get('examples', []):
            self.example(4, ex)
        for c in s.get('counts', []):
            self.textelem(4, 'Count', self.meta_pairs(c.get('meta')), str(c['value']))
        self.close(3, name)

    def synset(self, ss):
        ext = ss.get('external')
        name = 'ExternalSynset' if ext else 'Synset'
        pairs = [('id', ss['id'])]
        if not ext:
            lx = ss.get('lexicalized')
            pairs += [('ili', ss['ili']), ('partOfSpeech', ss.get('partOfSpeech')),
                      ('lexicalized', None if lx is None else ('true' if lx else 'false'))]
            if self.ge11:
                if ss.get('members'):
                    pairs.append(('members', ' '.join(ss['members'])))
                pairs.append(('lexfile', ss.get('lexfile')))
            pairs += self.meta_pairs(ss.get('meta'))
        kids = (ss.get('definitions') or ss.get('ili_definition') or ss.get('relations')
                or ss.get('examples'))
        if not kids:
            self.empty(2, name, pairs)
            return
        self.open(2, name, pairs)
        for d in ss.get('definitions', []):
            self.textelem(3, 'Definition',
                          [('language', d.get('language')),
                           ('sourceSense', d.get('sourceSense'))] + self.space_pairs(d)
                          + self.meta_pairs(d.get('meta')), d['text'])
        if ss.get('ili_definition') and not ext:
            idf = ss['ili_definition']
            self.textelem(3, 'ILIDefinition', self.space_pairs(idf)
                          + self.meta_pairs(idf.get('meta')), idf['text'])
        for r in ss.get('relations', []):
            self.relation(3, 'SynsetRelation', r)
        for ex in ss.get('examples', []):
            self.example(3, ex)
        self.close(2, name)


def resource_xml(universe, resource, quote='"', indent=True, lexdocs=None, style=None) -> bytes:
    docs = lexdocs if lexdocs is not None else [universe['lexicons'][sp]
                                                for sp in resource['lexicons']]
    return Writer(resource['lmf_version'], quote, indent, style).resource(docs).encode('utf-8')


def ili_tsv(ili_file) -> bytes:
    cols = ili_file['columns']
    extra = ili_file.get('extra_column')        # a column wn does not know: must be ignored
    head = [c.upper() if ili_file.get('upper') else c for c in cols]
    if ili_file.get('upper'):
        head[0] = 'ILI'
    # every column name is spelled in upper OR lower case, each on its own (a table exported
    # by a spreadsheet: "ili<TAB>STATUS<TAB>definition"); derived from the content, not from
    # the generator's PRNG, so that universes of earlier seeds stay what they were
    import zlib
    mix = zlib.crc32(repr([ili_file['name'], cols, [r.get('ili') for r in ili_file['rows'][:4]]])
                     .encode('utf-8')) % 8
    if mix < 3 and len(head) > 1:
        head = [head[0]] + [c.upper() if (mix + i) % 2 == 0 else c.lower()
                            for i, c in enumerate(head[1:])]
        if mix == 2:
            head[0] = 'ILI' if head[0] == 'ili' else 'ili'
    if extra:
        head.append('comment')
    interior = ili_file.get('interior_columns')     # unknown columns BETWEEN the known ones
    if interior:
        # (the layout of the released CILI table: ili status superseded_by origin definition)
        head = [head[0]] + ['superseded_by'] + head[1:-1] + ['origin'] + head[-1:] \
            if len(head) > 2 else [head[0], 'superseded_by'] + head[1:]
    lines = ['\t'.join(head)]
    for r in ili_file['rows']:
        if r.get('blank'):
            lines.append('')
            continue
        vals = []
        for c in cols:
            if c == 'ili':
                vals.append(r['ili'])
            elif c == 'status':
                vals.append(r.get('status', 'active'))
            else:
                vals.append(r.get('definition', ''))
        if extra:
            vals.append('note on %s' % r['ili'])
        if interior:
            vals = [vals[0]] + ['i77'] + vals[1:-1] + ['pwn-3.0'] + vals[-1:] \
                if len(vals) > 2 else [vals[0], 'i77'] + vals[1:]
        lines.append('\t'.join(vals))
    nl = '\r\n' if ili_file.get('crlf') else '\n'
    if ili_file.get('mixed_eol'):
        # a table with rows appended by another tool: each line has its own terminator
        other = '\n' if nl == '\r\n' else '\r\n'
        return ''.join(ln + (other if i % 3 == 1 else nl)
                       for i, ln in enumerate(lines)).encode('utf-8')
    return (nl.join(lines) + nl).encode('utf-8')


# -- packagers --------------------------------------------------------------------------

ROUTES = ['xml', 'gz', 'xz', 'pkg', 'col', 'tar-file', 'tgz-file', 'txz-file',
          'tar-pkg', 'tgz-pkg', 'txz-pkg', 'tar-col', 'txz-col', 'mem', 'dl-url', 'dl-project']
FILE_ROUTES = [r for r in ROUTES if r != 'mem' and not r.startswith('dl-')]


def _write(path, data: bytes):
    with open(path, 'wb') as f:
        f.write(data)
    return path


def _mkpkg(dirpath, fname, data, extras=True):
    os.makedirs(dirpath, exist_ok=True)
    _write(os.path.join(dirpath, fname), data)
    if extras:
        _write(os.path.join(dirpath, 'README.md'), b'# readme\n')
        _write(os.path.join(dirpath, 'LICENSE'), b'license text\n')
        _write(os.path.join(dirpath, 'citation.bib'), b'@misc{x}\n')
        # files that are ALMOST resources (a package has exactly one resource file):
        # a table with an "ili" column that is not the first one, a text whose first field
        # only starts with "ili", XML that is not WN-LMF
        _write(os.path.join(dirpath, 'mapping.tsv'),
               b'synset\tili\tpwn30\nx-1-n\ti1\t00001740-n\n')
        _write(os.path.join(dirpath, 'ili-notes.txt'), b'ilis\tnotes\ni1\tsee above\n')
        _write(os.path.join(dirpath, 'notes.xml'),
               b'<?xml version="1.0" encoding="UTF-8"?>\n<notes>LexicalResource</notes>\n')
    return dirpath


def gz_variant(data: bytes, k: int) -> bytes:
    """The same content as different (all valid) gzip files: how the container was encoded is
    the packager's choice - compression level, a file name and time stamp in the header,
    several members."""
    v = k % 5
    if v == 0:
        return gzip.compress(data, mtime=0)
    if v == 1:
        return gzip.compress(data, compresslevel=1, mtime=1700000000)
    if v == 2:
        buf = io.BytesIO()
        with gzip.GzipFile(filename='original name.xml', mode='wb', fileobj=buf,
                           compresslevel=9, mtime=0) as f:
            f.write(data)
        return buf.getvalue()
    if v == 3:
        cut = max(1, len(data) // 2)          # cat a.gz b.gz > file.gz
        return gzip.compress(data[:cut], mtime=0) + gzip.compress(data[cut:], mtime=0)
    return gzip.compress(data, compresslevel=0, mtime=0)         # stored, not deflated


def xz_variant(data: bytes, k: int) -> bytes:
    """The same content as different (all valid) xz files: preset, integrity check, several
    streams, and the dictionary size `xz -9` declares (64 MiB)."""
    v = k % 6
    if v == 0:
        return lzma.compress(data)
    if v == 1:
        return lzma.compress(data, preset=0, check=lzma.CHECK_CRC32)
    if v == 2:
        return lzma.compress(data, check=lzma.CHECK_SHA256)
    if v == 3:
        cut = max(1, len(data) // 2)
        return lzma.compress(data[:cut]) + lzma.compress(data[cut:], check=lzma.CHECK_NONE)
    if v == 4:
        return _xz_declare_dict(lzma.compress(data, preset=1), 28)     # 64 MiB, as xz -9
    return _xz_declare_dict(lzma.compress(data, preset=6), 26)         # 32 MiB, as xz -8


def _xz_declare_dict(blob: bytes, code: int) -> bytes:
    """Rewrite the LZMA2 dictionary size declared in the (single) block header of an xz
    stream - the decoder's memory need follows the declaration, not the data - and fix the
    header's CRC32.  A stream may declare a larger dictionary than its encoder used."""
    import zlib
    b = bytearray(blob)
    off = 12                                   # stream header: magic(6) flags(2) crc32(4)
    hlen = (b[off] + 1) * 4
    hdr = b[off:off + hlen]
    # size byte, flags (one filter, no sizes), filter id 0x21, props size 1, props
    if hdr[1] & 0xc3 != 0 or hdr[2] != 0x21 or hdr[3] != 1:
        return blob
    hdr[4] = code
    crc = zlib.crc32(bytes(hdr[:-4])) & 0xffffffff
    hdr[-4:] = crc.to_bytes(4, 'little')
    b[off:off + hlen] = hdr
    out = bytes(b)
    assert lzma.decompress(out) == lzma.decompress(blob)
    return out


def _tar(dst, src, mode):
    with tarfile.open(dst, mode) as t:
        if os.path.isfile(src) and not dst.endswith('.txz'):
            # an archive updated with "tar -rf": the same member twice, the last copy counts
            old = tarfile.TarInfo(os.path.basename(src))
            stale = b'<?xml version="1.0" encoding="UTF-8"?>\n<stale/>\n'
            old.size = len(stale)
            t.addfile(old, io.BytesIO(stale))
        t.add(src, arcname=os.path.basename(src))
    return dst


def package(route: str, workdir: str, name: str, data: bytes, ext: str = '.xml',
            siblings: list | None = None) -> str:
    """Materialise *data* (a resource file's bytes) under *workdir* as supply route
    *route*; returns the path to hand to ``wn.add``.  *siblings*: for collection routes,
    extra (name, bytes) packages that go into the same collection."""
    os.makedirs(workdir, exist_ok=True)
    fname = name + ext
    if route in ('xml', 'dl-url', 'dl-project'):
        return _write(os.path.join(workdir, fname), data)
    if route == 'gz':
        return _write(os.path.join(workdir, fname + '.gz'), gz_variant(data, len(data) + len(name)))
    if route == 'xz':
        return _write(os.path.join(workdir, fname + '.xz'), xz_variant(data, len(data) + len(name)))
    if route == 'pkg':
        return _mkpkg(os.path.join(workdir, name + '-pkg'), fname, data)
    if route == 'col' or route.endswith('-col'):
        col = os.path.join(workdir, name + '-col')
        os.makedirs(col, exist_ok=True)
        _mkpkg(os.path.join(col, name), fname, data)
        for i, (sname, sdata) in enumerate(siblings or []):
            if route == 'col' and i == 0 and len(name) % 2 == 0:
                # a member assembled with "ln -s": the package lives elsewhere
                real = _mkpkg(os.path.join(workdir, name + '-linked', sname), sname + ext,
                              sdata, extras=False)
                link = os.path.join(col, sname)
                if not os.path.lexists(link):
                    os.symlink(real, link, target_is_directory=True)
            else:
                _mkpkg(os.path.join(col, sname), sname + ext, sdata, extras=False)
        _write(os.path.join(col, 'README.md'), b'# collection\n')
        if route == 'col':
            return col
        mode = {'tar': 'w', 'tgz': 'w:gz', 'txz': 'w:xz'}[route.split('-')[0]]
        return _tar(os.path.join(workdir, name + '-col.' + route.split('-')[0]), col, mode)
    kind, what = route.split('-')
    mode = {'tar': 'w', 'tgz': 'w:gz', 'txz': 'w:xz'}[kind]
    if what == 'file':
        src = _write(os.path.join(workdir, fname), data)
    else:
        src = _mkpkg(os.path.join(workdir, name + '-pkg'), fname, data)
    return _tar(os.path.join(workdir, '%s-%s.%s' % (name, what, kind)), src, mode)
