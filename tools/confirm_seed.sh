#!/bin/bash
# tools/confirm_seed.sh <seeded-id>: confirm a seeded change in a scratch worktree:
# demo PASSes on the clean tree, patch applies, test-suite stays green, demo FAILs.
id=$1
sd=/verif/seeded/$id
wt=/tmp/wt-confirm/$id
mkdir -p /tmp/wt-confirm
git -C /repo worktree remove --force $wt >/dev/null 2>&1
git -C /repo worktree add --detach $wt HEAD >/dev/null 2>&1 || { echo "$id worktree-failed"; exit 2; }
cd $wt
clean_out=$(WN_TREE=$wt timeout 300 /venv/bin/python $sd/demo.py 2>&1 | tail -3); clean_rc=$?
clean_rc=$(WN_TREE=$wt timeout 300 /venv/bin/python $sd/demo.py >/dev/null 2>&1; echo $?)
git apply $sd/patch.diff; apply_rc=$?
tests=$(timeout 900 /venv/bin/python -m pytest -q -p no:cacheprovider tests bench 2>&1 | tail -1)
mut_out=$(WN_TREE=$wt timeout 300 /venv/bin/python $sd/demo.py 2>&1 | tail -2)
mut_rc=$(WN_TREE=$wt timeout 300 /venv/bin/python $sd/demo.py >/dev/null 2>&1; echo $?)
cd /
git -C /repo worktree remove --force $wt >/dev/null 2>&1
/venv/bin/python - "$id" "$clean_rc" "$apply_rc" "$tests" "$mut_rc" "$mut_out" <<'P'
import sys, json
id_, clean_rc, apply_rc, tests, mut_rc, mut_out = sys.argv[1:7]
ok = clean_rc == '0' and apply_rc == '0' and 'passed' in tests and 'failed' not in tests and mut_rc == '1'
json.dump({'id': id_, 'confirmed': ok, 'demo_on_clean_rc': int(clean_rc), 'apply_rc': int(apply_rc),
           'tests_with_patch': tests.strip(), 'demo_with_patch_rc': int(mut_rc),
           'demo_with_patch_out': mut_out[-400:]}, open('/verif/seeded/%s/confirm.json' % id_, 'w'), indent=1)
print(id_, 'CONFIRMED' if ok else 'NOT-CONFIRMED', tests.strip(), 'clean_rc=' + clean_rc, 'mut_rc=' + mut_rc)
P
