#!/venv/bin/python
"""Writes seeded/<id>/meta.json from confirm.json, tools/seed_needs.json and a sweep log."""
import json, os, re, sys, glob
V = '/verif'
needs = json.load(open(V + '/tools/seed_needs.json'))
logs = sys.argv[1:]
res = {}
for lf in logs:
    for line in open(lf):
        m = re.match(r'(\S+) (C\d+) rc=(\d+)(?: VIOLATION property=\S+ replay=\S+\s+seed=(\d+) oracle=([^:]+): (.*))?', line)
        if m:
            res.setdefault(m.group(1), []).append((m.group(2), int(m.group(3)), m.group(4), m.group(5), (m.group(6) or '').strip()))
for d in sorted(glob.glob(V + '/seeded/*/')):
    i = os.path.basename(d.rstrip('/'))
    if not os.path.exists(d + 'patch.diff'):
        continue
    old = json.load(open(d + 'meta.json')) if os.path.exists(d + 'meta.json') else {}
    conf = json.load(open(d + 'confirm.json')) if os.path.exists(d + 'confirm.json') else {}
    meta = dict(old)
    meta.update({'id': i, 'property': i.split('-')[0], 'needs': needs.get(i, old.get('needs', '')),
                 'confirmed': conf.get('confirmed'),
                 'what_was_run': 'tools/confirm_seed.sh %s (scratch worktree: demo on clean tree rc=%s, git apply rc=%s, test-suite with patch: %s, demo with patch rc=%s); tools/sweep.sh %s <check> (scratch worktree + VERIF_REPO)'
                 % (i, conf.get('demo_on_clean_rc'), conf.get('apply_rc'), conf.get('tests_with_patch'), conf.get('demo_with_patch_rc'), i)})
    if i in res:
        caught = [p for p, rc, *_ in res[i] if rc == 1]
        meta['caught_by'] = sorted(set(meta.get('caught_by', [])) | set(caught)) if caught else meta.get('caught_by', [])
        if caught and str(meta.get('status', '')).startswith('MISSED'):
            del meta['status']
        for p, rc, seed, oracle, msg in res[i]:
            if rc == 1:
                meta['oracle'] = '%s: %s' % (oracle, msg[:140])
                meta['first_failing_seed'] = int(seed)
                break
        if not caught and not meta.get('caught_by'):
            meta['status'] = meta.get('status', 'MISSED by ' + ','.join(p for p, *_ in res[i]))
    json.dump(meta, open(d + 'meta.json', 'w'), indent=1, ensure_ascii=False)
print('meta written')
