#!/venv/bin/python
"""Regenerates /verif/MANIFEST.json from the table below (keeps it valid and consistent)."""
import json, os, sys
sys.path.insert(0, '/verif')
CHECKS = {
 'C01': ('exploration', '4.C01', 'seeded world simulation: model-vs-API image after add under random prior history, id/ILI collisions, BATCH_SIZE, short reads, route, restart'),
 'C03': ('exploration', '4.C03', 'seeded world simulation: export on a primary node, re-import on an empty replica node; loaded export vs model document, replica vs primary transcript'),
 'C04': ('exploration', '4.C04', 'seeded interleaving of long-lived client sessions and a mutator; membership-in-scope invariant and before/after transcript invariance'),
 'C05': ('exploration', '4.C05', 'seeded add/remove/add-ILI/restart histories against a reference model + fresh-database equivalence after every history; an extension shipped in one file with the next release of its base'),
 'C06': ('fault_enumeration', '4.C06', 'fault injection at every progress callback, SQL statement, authorizer callback and VM interrupt of sampled (history, op) pairs; durable pre-state equality + retry'),
 'C07': ('exploration', '4.C07', 'every supply route of a sampled resource into copies of one pre-state, seeded directory order, repetition; logical-dump equivalence with the plain-XML route'),
 'C08': ('exploration', '4.C08', 'seeded add/remove histories (several versions per id, prefix ids) + specifier battery against a model of the documented table; worlds of 257-513 installed lexicons'),
 'C10': ('exploration', '4.C10', 'seeded histories and sessions; navigation/equality/translation laws against the model in every reached store state'),
 'C11': ('exploration', '4.C11', 'seeded histories and scopes; relation multisets, closures and simple paths against the model; termination by statement budget'),
 'C12': ('exploration', '4.C12', 'seeded histories in which dependency providers come and go; expand set, warning and ILI-mapped relations against the model; long-lived default-mode Wordnets re-queried after later additions; hub worlds of 40-300 children'),
 'C16': ('exploration', '4.C16', 'one battery transcript per fresh interpreter under different PYTHONHASHSEED values, repeated in-process; byte equality; twin Wordnet objects (one queried, one not) compared after seeded remove/re-add histories'),
 'C19': ('exploration', '4.C19', 'seeded interleavings of add(lexicons)/add(ILI index)/remove paired with their commuted plans; model ILI table + nothing-else-changes'),
 'C20': ('fault_enumeration', '4.C20', 'every truncation offset and every single structural mutation of sampled files, through every carrying route; reject-whole + unchanged database + scan/load agreement'),
}
NOTE = ('trusted base: the hand-written reference model/generator/writer in /verif/simwn, CPython 3.12 sqlite3, '
        'the seams of simwn/world.py; sampled universes and histories (seeded), API-call interleaving granularity; '
        'process kill and thread pre-emption are out of scope (no property quantifies over them)')
def main():
    m = json.load(open('/verif/MANIFEST.json'))
    have = [c for c in CHECKS if os.path.exists('/verif/simwn/checks/%s.py' % c.lower())]
    only = os.environ.get('MANIFEST_ONLY')
    if only:
        have = [c for c in have if c in only.split(',')]
    m['checks'] = []
    for c in have:
        level, ref, tech = CHECKS[c]
        m['checks'].append({
            'property_id': c,
            'quick_cmd': './check %s --tier quick' % c,
            'thorough_cmd': './check %s --tier thorough' % c,
            'evidence_file': '/verif/evidence/%s.json' % c,
            'replay_cmd_template': './check %s --replay {path}' % c,
            'engine': 'simwn',
            'level_claimed': {'category': level, 'text': TEXT[level], 'design_ref': 'DESIGN.md section ' + ref},
            'level_note': NOTE,
            'technique': 'deterministic simulation with fault injection: ' + tech,
        })
    m['engines'] = [{'name': 'simwn', 'path': '/verif/simwn', 'serves_properties': have,
                     'kind_free_text': 'seeded single-process simulator driving the real wn library against a real SQLite file; all environment choices (history, faults, byte chunking, directory order, knobs, hash seed) derived from VERIF_SEED'}]
    na = {x['property_id'] for x in m['not_applicable']}
    assert not (na & set(have))
    json.dump(m, open('/verif/MANIFEST.json', 'w'), indent=1)
    print('checks:', have)
TEXT = {
 'exploration': 'seeded search over simulated histories/schedules/configurations: each run is one exactly repeatable execution of the real library under the simulator, checked step by step against an executable reference model and by metamorphic comparison; a clean batch is evidence, not proof',
 'fault_enumeration': 'for each sampled case the fault space is enumerated completely (every callback, statement, authorizer callback, interrupt point / every truncation offset and structural mutation) and the invariant is checked at each point; cases themselves are sampled by seed',
}
main()
