#!/venv/bin/python
"""Rewrites the generated part of DESIGN.md (between the AUTOGEN markers) from
known_findings.json, seeded/*/meta.json and evidence/*.json."""
import json, os, glob, re
V = '/verif'
k = json.load(open(V + '/known_findings.json'))
out = []
out.append('## 12. What the checks found on the pinned tree\n')
out.append('### 12.1 Repaired in /repo (one `fix:` commit each; test-suite unchanged and green)\n')
out.append('| property | commit | what failed (and which oracle found it) |\n|---|---|---|')
for f in k['fixed']:
    m = re.match(r'fixed: property=(\S+) (\S+) (.*)', f)
    out.append('| %s | `%s` | %s |' % (m.group(1), m.group(2), m.group(3).replace('|', '\\|')))
out.append('\n### 12.2 Recorded as known findings (`known_findings.json`; not repaired, with the reason)\n')
out.append('| id | property | what fails |\n|---|---|---|')
for f in k['findings']:
    out.append('| `%s` | %s | %s |' % (f['id'], f['property'], f['what'].replace('|', '\\|')))
out.append('')
out.append('## 13. Seeded changes (from independent sub-agents) and which checks catch them\n')
out.append('Each change lives in `seeded/<id>/` (patch.diff, demo.py, notes.md, meta.json), was '
           'confirmed in a scratch worktree (demo passes on the clean tree, patch applies, the 100 '
           'tests stay green, demo fails) and was then run against the property\'s quick check '
           'through `tools/sweep.sh` (scratch worktree + `VERIF_REPO`; /repo itself is never '
           'touched).\n')
metas = [json.load(open(d)) for d in sorted(glob.glob(V + '/seeded/*/meta.json'))]
n_caught = sum(1 for m in metas if m.get('caught_by'))
n_thorough = sum(1 for m in metas if m.get('caught_by') and m.get('tier') == 'thorough')
n_neutral = sum(1 for m in metas if not m.get('caught_by')
                and str(m.get('status', '')).startswith('neutralised'))
n_undecided = sum(1 for m in metas if not m.get('caught_by')
                  and str(m.get('status', '')).startswith('NOT DECIDED'))
n_missed = len(metas) - n_caught - n_neutral - n_undecided
out.append('Totals over fifteen batches of 13 changes (three in the first round, two in the second, one in each later round): %d changes, %d caught (%d of them only '
           'by the thorough tier, marked in the table), %d neutralised by a repair of the '
           'defect they build on (each was caught on the tree it was written for, or its '
           'defect class is what the repair\'s check now covers - see its meta.json), %d not '
           'decided because no sound oracle exists, %d missed (limits recorded in section 10).\n'
           % (len(metas), n_caught, n_thorough, n_neutral, n_undecided, n_missed))
out.append('| id | breaks | needs | caught by (quick) | first failing oracle |\n|---|---|---|---|---|')
for m in metas:
    out.append('| %s | %s | %s | %s | %s |' % (
        m['id'], m['property'], m.get('needs', '').replace('|', '\\|'),
        (', '.join(m.get('caught_by', [])) + (' (thorough tier)' if m.get('tier') == 'thorough'
                                              else '')) if m.get('caught_by')
        else m.get('status', 'MISSED'),
        (m.get('oracle') or '').replace('|', '\\|')))
out.append('')
out.append('## 14. Measured throughput (quick tier, 16 workers, from the committed evidence files)\n')
out.append('| property | level | evaluations | distinct non-trivial | simulated runs | runs/hour | wall s | faults fired |\n|---|---|---|---|---|---|---|---|')
for p in sorted(glob.glob(V + '/evidence/C*.json')):
    e = json.load(open(p)); c = e['coverage']
    out.append('| %s | %s | %d | %d | %d | %d | %.0f | %d |' % (
        e['property_id'], e['level'], c['evaluations'], c['distinct_nontrivial'],
        c.get('simulated_runs', 0), c.get('runs_per_hour', 0), e['wall_s'],
        sum(c.get('faults_fired_by_kind', {}).values())))
out.append('')
text = '\n'.join(out)
p = V + '/DESIGN.md'
s = open(p).read()
B, E = '<!-- AUTOGEN-BEGIN -->', '<!-- AUTOGEN-END -->'
if B not in s:
    a = s.index('## Appendix A')
    s = s[:a] + B + '\n' + E + '\n\n' + s[a:]
a, b = s.index(B), s.index(E)
s = s[:a + len(B)] + '\n' + text + '\n' + s[b:]
open(p, 'w').write(s)
print('DESIGN.md tables regenerated')
