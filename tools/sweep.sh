#!/bin/bash
# tools/sweep.sh <seeded-id> <prop> [<prop>...]: run quick checks against a seeded change applied
# to a scratch worktree of /repo (VERIF_REPO), never to /repo itself. Output: one line per check.
id=$1; shift
wt=/tmp/wt-sweep/$id
mkdir -p /tmp/wt-sweep /tmp/sweep-out/$id
git -C /repo worktree remove --force $wt >/dev/null 2>&1
git -C /repo worktree add --detach $wt HEAD >/dev/null 2>&1 || { echo "$id worktree-failed"; exit 2; }
git -C $wt apply ${VERIF_DIR:-/verif}/seeded/$id/patch.diff || { echo "$id apply-failed"; exit 2; }
for prop in "$@"; do
  out=$(VERIF_REPO=$wt VERIF_OUT=/tmp/sweep-out/$id VERIF_MINIMISE_S=${VERIF_MINIMISE_S:-0} VERIF_NO_MINIMISE=${VERIF_NO_MINIMISE:-1} ${VERIF_DIR:-/verif}/check $prop --tier quick 2>&1)
  rc=$?
  v=$(echo "$out" | grep -m1 -A1 '^VIOLATION' | tr '\n' ' ' | cut -c1-300)
  rp=$(echo "$out" | grep -m1 '^VIOLATION' | sed 's/.*replay=//')
  extra=""
  if [ -n "$SWEEP_REPLAY" ] && [ -n "$rp" ]; then
    r1=$(VERIF_REPO=$wt ${VERIF_DIR:-/verif}/check $prop --replay $rp 2>&1); rc1=$?
    r2=$(${VERIF_DIR:-/verif}/check $prop --replay $rp 2>&1); rc2=$?
    m=$(echo "$r1" | grep -c 'signature matches')
    extra=" replay-on-mutant rc=$rc1 sigmatch=$m replay-on-clean rc=$rc2"
  fi
  echo "$id $prop rc=$rc $v$extra"
done
git -C /repo worktree remove --force $wt >/dev/null 2>&1
