#!/bin/bash
# tools/sweep.sh <seeded-id> <prop> [<prop>...]: run quick checks against a seeded change applied
# to a scratch worktree of /repo (VERIF_REPO), never to /repo itself. Output: one line per check.
id=$1; shift
wt=/tmp/wt-sweep/$id
mkdir -p /tmp/wt-sweep /tmp/sweep-out/$id
git -C /repo worktree remove --force $wt >/dev/null 2>&1
git -C /repo worktree add --detach $wt HEAD >/dev/null 2>&1 || { echo "$id worktree-failed"; exit 2; }
git -C $wt apply /verif/seeded/$id/patch.diff || { echo "$id apply-failed"; exit 2; }
for prop in "$@"; do
  out=$(VERIF_REPO=$wt VERIF_OUT=/tmp/sweep-out/$id VERIF_MINIMISE_S=${VERIF_MINIMISE_S:-0} VERIF_NO_MINIMISE=1 /verif/check $prop --tier quick 2>&1)
  rc=$?
  v=$(echo "$out" | grep -m1 -A1 '^VIOLATION' | tr '\n' ' ' | cut -c1-300)
  echo "$id $prop rc=$rc $v"
done
git -C /repo worktree remove --force $wt >/dev/null 2>&1
